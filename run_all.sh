#!/bin/bash
# usage: run_all.sh <tier> <seed> [ids...]   - runs registered checks one after another, logs to work/runall_<tier>_<seed>/
TIER=${1:-quick}; SEED=${2:-1}; shift 2
IDS=${@:-$(python3 -c "import json;print(' '.join(c['property_id'] for c in json.load(open('/verif/MANIFEST.json'))['checks']))")}
D=/verif/work/runall_${TIER}_${SEED}; mkdir -p $D
for id in $IDS; do
  s=$(date +%s)
  VERIF_SEED=$SEED VERIF_TIER=$TIER /verif/check $id --tier $TIER > $D/$id.log 2>&1; rc=$?
  echo "$id rc=$rc $(( $(date +%s)-s ))s $(grep -c '^KNOWN-FINDING' $D/$id.log) known $(grep -c '^VIOLATION' $D/$id.log) viol" | tee -a $D/summary.txt
done
