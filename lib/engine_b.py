"""Engine B - values, kinds, path syntax (C18, C19, C20)."""
import json, os, time, random, itertools
from common import *
from engine_a import validate, aggregate

GEN_CFG = "SPECIFICATION Spec\nCHECK_DEADLOCK FALSE\n"
TRACE_CFG = "SPECIFICATION TraceSpec\nINVARIANT Report\nPOSTCONDITION TraceAccepted\nCHECK_DEADLOCK FALSE\n"


def universes(spec, wd, tags):
    out = tlc(spec, GEN_CFG, wd, workers=2, name="Gen_" + os.path.splitext(spec)[0], timeout=900)
    res = {}
    for t in tags:
        p = printed(out, t)
        if not p:
            raise ToolError(f"{spec} did not print {t}:\n{out[-1500:]}")
        res[t] = p[0]
    st, tr = tlc_stats(out)
    return res, st, tr


def run_cases(cases, wd, sub, shards=None):
    shards = shards or max(1, min(NCPU, len(cases) // 200))
    cpath = os.path.join(wd, "cases.ndjson")
    with open(cpath, "w") as f:
        for c in cases:
            f.write(json.dumps(c) + "\n")
    run([VH, sub, "--cases", cpath, "--out", os.path.join(wd, "tr"), "--shards", str(shards)], cwd=wd, timeout=3600)
    return [os.path.join(wd, f"tr.{i}.ndjson") for i in range(shards)]


def paths_upto(segs, n):
    out = [[]]
    for k in range(1, n + 1):
        out += [list(t) for t in itertools.product(segs, repeat=k)]
    return out


def existing_paths(v, limit=3):
    """Paths that exist in the (transport-encoded) value, with negative-index aliases."""
    out = []
    def rec(x, pre, depth):
        if depth >= limit:
            return
        if x["t"] == "obj":
            for k, c in (x["m"].items() if isinstance(x["m"], dict) else []):
                out.append(pre + [{"f": k}])
                rec(c, pre + [{"f": k}], depth + 1)
        elif x["t"] == "arr":
            n = len(x["e"])
            for i, c in enumerate(x["e"]):
                for idx in (i, i - n):
                    out.append(pre + [{"i": idx}])
                rec(c, pre + [{"i": i}], depth + 1)
    rec(v, [], 0)
    return out


def has_edge_index(p):
    return any("i" in s and (s["i"] < 0 or s["i"] >= 2) for s in p)


def check_values(prop, tier, seed):
    t0 = time.time()
    wd = workdir(f"{prop}_{tier}")
    build_harness()
    u, gst, gtr = universes("GenValues.tla", wd, ["VALUES1", "VALUES2", "SEGS", "INSERTED", "SIZES"])
    v1, v2, segs, xs = u["VALUES1"], u["VALUES2"], u["SEGS"], u["INSERTED"]
    rnd = random.Random(seed)
    cases = []
    if tier == "quick":
        # every tuple with a negative / out-of-range index on the depth-1 values (paths <= 2), one inserted value
        # per prune flag; plus a seeded sample of the rest
        p2 = paths_upto(segs, 2)
        for v in v1:
            for p in p2:
                if has_edge_index(p):
                    cases.append({"v": v, "p": p, "x": xs[rnd.randrange(len(xs))], "prune": rnd.random() < 0.5})
        p3 = paths_upto(segs, 3)
        allv = v1 + v2
        # every path that exists in every value (and its negative-index aliases), both prune flags
        for v in allv:
            for p in existing_paths(v):
                for prune in (False, True):
                    cases.append({"v": v, "p": p, "x": rnd.choice(xs), "prune": prune})
        for _ in range(8000):
            cases.append({"v": rnd.choice(allv), "p": rnd.choice(p3), "x": rnd.choice(xs), "prune": rnd.random() < 0.5})
    else:
        p2 = paths_upto(segs, 2)
        p3 = paths_upto(segs, 3)
        for v in v1 + v2:
            for p in p2 + existing_paths(v):
                for x in xs:
                    for prune in (False, True):
                        cases.append({"v": v, "p": p, "x": x, "prune": prune})
        for _ in range(150000):
            cases.append({"v": rnd.choice(v1 + v2), "p": rnd.choice(p3), "x": rnd.choice(xs), "prune": rnd.random() < 0.5})
    log(f"[{prop}] {len(cases)} tuples ({time.time()-t0:.0f}s)")
    traces = run_cases(cases, wd, "values", shards=NCPU)
    agg = aggregate(validate(traces, wd, spec="TraceValues.tla", cfg=TRACE_CFG))
    cnt = agg["cnt"]
    write_json(os.path.join(wd, "findings.json"), {"viols": agg["viols"][:50], "divs": agg["divs"][:50]})

    def replay_writer(v):
        with open(v["_file"]) as f:
            line = f.readlines()[v["line"] - 1]
        return {"engine": "B/values", "record": json.loads(line)}

    coverage = {
        "states": gst + agg["states"], "transitions": gtr + agg["transitions"],
        "traces_validated_against_impl": cnt.get("ops", 0),
        "samples": cases[:3],
        "evaluations": cnt.get("ops", 0),
        "distinct_nontrivial": cnt.get("path_existed", 0) + cnt.get("negative_index", 0),
        "rule": "tuples (value, path, inserted value, prune) from the universes of GenValues.tla: values of depth <= 2 over fields "
                "{a,b}, arrays of length 0-3, scalars {null,1,\"s\"}; paths of <= 3 segments over {a, b, \"b c\", 0,1,2,5,-1,-2,-3,-6}. "
                "quick: all depth-1 values x paths <= 2 containing a negative/out-of-range index + every existing path of every value (with negative aliases, both prune flags) + 8000 seeded tuples; thorough: all "
                "values x paths <= 2 x all inserted values + 150000 seeded tuples with paths <= 3. non-trivial = the path existed in the "
                "value or uses a negative index",
        "universe": u["SIZES"], "tuples_with_existing_path": cnt.get("path_existed", 0),
        "tuples_with_negative_index": cnt.get("negative_index", 0), "tuples_through_scalar": cnt.get("through_scalar", 0),
        "model_divergences": cnt.get("model_divergences", 0), "divergence_samples": agg["divs"][:5],
        "exhaustive": False,
    }
    assumptions = ["laws L1-L5 are evaluated by TLC on the results of the real Value / TargetValue operations",
                   "L2 (frame) is asserted for locations TraceValues!Independent classifies as independent: sibling fields, sibling indices "
                   "that resolve in range without growth/shift; field-vs-index divergence and front padding are excluded by design"]
    mine = [v for v in agg["viols"] if v["prop"] == prop]
    return verdict(prop, tier, seed, "model_checking", coverage, mine, assumptions, t0, replay_writer)


FIXED_PATHS = [[{"f": "a"}], [{"f": "b"}], [{"f": "c"}], [{"i": 0}], [{"i": 1}], [{"i": 2}], [{"i": 5}], [{"i": -1}], [{"i": -2}], [{"i": -4}],
               [{"f": "a"}, {"f": "a"}], [{"f": "a"}, {"i": 0}], [{"f": "a"}, {"i": -1}], [{"i": 0}, {"f": "a"}], [{"i": -1}, {"f": "a"}],
               [{"i": 0}, {"i": 1}], [{"f": "c"}, {"f": "d"}], []]


def check_kinds(prop, tier, seed):
    t0 = time.time()
    wd = workdir(f"{prop}_{tier}")
    build_harness()
    u, gst, gtr = universes("GenKinds.tla", wd, ["KINDS", "VALUES", "MEMBERS"])
    kinds, values, members = u["KINDS"], u["VALUES"], u["MEMBERS"]
    rnd = random.Random(seed)
    # (kind, member) pairs to insert / merge with
    pairs = [(ki, vi - 1) for ki, ms in enumerate(members) for vi in ms]
    per_kind = 3 if tier == "quick" else 12
    npaths = 6 if tier == "quick" else 18
    cases = []
    for ki, ms in enumerate(members):
        if not ms:
            continue
        chosen = ms if len(ms) <= per_kind else rnd.sample(ms, per_kind)
        for vi in chosen:
            v = values[vi - 1]
            ps = existing_paths(v, 2)
            ps = ps + [p for p in FIXED_PATHS if p not in ps]
            if len(ps) > npaths:
                ex = existing_paths(v, 2)
                keep = ex[: npaths // 2]
                rest = [p for p in ps if p not in keep]
                ps = keep + rnd.sample(rest, npaths - len(keep))
            for p in ps:
                kxi, xi = rnd.choice(pairs)
                k2i, v2i = rnd.choice(pairs)
                cases.append({"k": kinds[ki], "v": v, "p": p, "kx": kinds[kxi], "x": values[xi],
                              "k2": kinds[k2i], "v2": values[v2i], "compact": rnd.random() < 0.5})
    log(f"[{prop}] {len(kinds)} kinds, {len(values)} values, {len(pairs)} member pairs, {len(cases)} cases ({time.time()-t0:.0f}s)")
    traces = run_cases(cases, wd, "kinds", shards=NCPU)
    agg = aggregate(validate(traces, wd, spec="TraceKinds.tla", cfg=TRACE_CFG))
    cnt = agg["cnt"]
    write_json(os.path.join(wd, "findings.json"), {"viols": agg["viols"][:200]})

    def replay_writer(v):
        with open(v["_file"]) as f:
            line = f.readlines()[v["line"] - 1]
        return {"engine": "B/kinds", "record": json.loads(line)}

    coverage = {
        "states": gst + agg["states"], "transitions": gtr + agg["transitions"],
        "traces_validated_against_impl": cnt.get("ops", 0),
        "samples": [{"kind": c["k"], "value": c["v"], "path": c["p"]} for c in cases[:3]],
        "evaluations": cnt.get("ops", 0) + cnt.get("unbound", 0),
        "distinct_nontrivial": cnt.get("ops", 0),
        "rule": "kinds of GenKinds.tla (primitive sets, objects over fields {a,b}, arrays with known indices incl. holes, unknown in "
                "{none, exact integer, exact bytes|null, any, json}, one level of nesting, collection-or-primitive mixes) x member values "
                "decided by the specification's InKind x paths (the value's own paths with negative aliases + a fixed list of missing, "
                "out-of-range and negative paths) x a random (kind, member) to insert and to merge with x compact flag. non-trivial = the "
                "kind survived the trip through the real builders and still contains the value (Bound)",
        "kinds": len(kinds), "values": len(values), "member_pairs": len(pairs),
        "cases_unbound_by_builder_roundtrip": cnt.get("unbound", 0), "cases_with_existing_path": cnt.get("path_existed", 0),
        "superset_true_cases": cnt.get("superset_true", 0), "object_merges": cnt.get("merges", 0),
        "exhaustive": False,
    }
    assumptions = ["membership is the specification's InKind, written from the documented meaning of kinds, not from Kind::is_superset",
                   "real kinds are built with the public builders from the TLC description and serialised back through public accessors; "
                   "cases whose kind does not survive that trip are counted as unbound, not judged"]
    mine = [v for v in agg["viols"] if v["prop"] == prop]
    return verdict(prop, tier, seed, "model_checking", coverage, mine, assumptions, t0, replay_writer)


PATHS_MODEL_CFG = "SPECIFICATION Spec\nINVARIANT RoundTrip\nINVARIANT RoundTripTarget\nCHECK_DEADLOCK FALSE\n"


def check_paths(prop, tier, seed):
    t0 = time.time()
    wd = workdir(f"{prop}_{tier}")
    build_harness()
    out = tlc("GenPaths.tla", PATHS_MODEL_CFG, wd, workers=min(8, NCPU), name="GenPaths", timeout=1800)
    if "No error has been found" not in out:
        raise ToolError("PathSyntax.tla: the transcribed renderer/parser do not round-trip at model level:\n" + out[-2500:])
    mst, mtr = tlc_stats(out)
    fields = printed(out, "FIELDS")[0]
    indices = printed(out, "INDICES")[0]
    alphabet = printed(out, "ALPHABET")[0]
    rnd = random.Random(seed)
    segs = [{"fc": f} for f in fields] + [{"i": i} for i in indices]
    cases = [{"kind": "path", "p": []}]
    cases += [{"kind": "path", "p": [s]} for s in segs]
    pairs = [[s, t] for s in segs for t in segs]
    if tier == "quick":
        pairs = rnd.sample(pairs, 4000)
    cases += [{"kind": "path", "p": p} for p in pairs]
    triples = 2000 if tier == "quick" else 40000
    for _ in range(triples):
        cases.append({"kind": "path", "p": [rnd.choice(segs), rnd.choice(segs), rnd.choice(segs)]})
    # texts: all up to length n over the alphabet, plus longer seeded ones
    n = 4 if tier == "quick" else 5
    texts = [[]]
    for k in range(1, n + 1):
        texts += [list(t) for t in itertools.product(alphabet, repeat=k)]
    extra = 15000 if tier == "quick" else 200000
    for _ in range(extra):
        k = rnd.randint(n + 1, n + 4)
        t = [rnd.choice(alphabet) for _ in range(k)]
        if rnd.random() < 0.7:
            t[0] = rnd.choice([".", "%"])
        texts.append(t)
    cases += [{"kind": "text", "t": t} for t in texts]
    log(f"[{prop}] {len(cases)} cases ({time.time()-t0:.0f}s)")
    traces = run_cases(cases, wd, "paths", shards=NCPU)
    agg = aggregate(validate(traces, wd, spec="TracePaths.tla", cfg=TRACE_CFG))
    cnt = agg["cnt"]
    write_json(os.path.join(wd, "findings.json"), {"viols": agg["viols"][:100], "divs": agg["divs"][:50]})

    def replay_writer(v):
        with open(v["_file"]) as f:
            line = f.readlines()[v["line"] - 1]
        return {"engine": "B/paths", "record": json.loads(line)}

    coverage = {
        "states": mst + agg["states"], "transitions": mtr + agg["transitions"],
        "traces_validated_against_impl": cnt.get("paths", 0) + cnt.get("texts", 0),
        "samples": [cases[5], cases[-1]],
        "evaluations": cnt.get("paths", 0) + cnt.get("texts", 0),
        "distinct_nontrivial": cnt.get("quoted", 0) + cnt.get("texts_both_parsers", 0),
        "rule": "model level: all paths of 1-2 segments over fields of length <= 2 from {a,Z,0,_,@,-,.,space,\",\\,e-acute,[} (+ empty field) and "
                "indices {0,7,10,-1,-12} round-trip through the transcribed Render/Parse (exhaustive). conformance: those paths (quick: "
                f"all single segments, 4000 pairs, {triples} triples) through the real renderer and parsers; all texts of length <= {n} over "
                "{. a - [ ] 0 1 \" \\ @ % space} plus seeded longer ones through parse_value_path, parse_target_path and the VRL compiler. "
                "non-trivial = a path with a field that needs quoting, or a text both the VRL compiler and parse_target_path accept",
        "model_states": mst, "paths": cnt.get("paths", 0), "paths_needing_quotes": cnt.get("quoted", 0),
        "texts": cnt.get("texts", 0), "texts_accepted_by_path_parser": cnt.get("texts_accepted", 0),
        "texts_accepted_by_both_parsers": cnt.get("texts_both_parsers", 0),
        "model_divergences": cnt.get("model_divergences", 0) + len(agg["divs"]), "divergence_samples": agg["divs"][:5],
        "exhaustive": False,
    }
    assumptions = ["texts are compared as sequences of characters; fields travel as character sequences",
                   "R2 is judged only for texts both the VRL compiler (single query expression) and parse_target_path accept"]
    mine = [v for v in agg["viols"] if v["prop"] == prop]
    return verdict(prop, tier, seed, "model_checking", coverage, mine, assumptions, t0, replay_writer)
