#!/usr/bin/env python3
"""Demonstrates the binding between the specifications and the recorded executions: takes traces that the checks accepted,
corrupts one recorded field / removes the events of one hook / alters one recorded result, and shows that the trace
specifications no longer accept them.  Uses the traces left in work/ by quick runs of C09, C25 and C27 (runs them first when absent).
Writes /verif/binding_selftest.json; exit 0 when the clean slices are accepted and every corruption is noticed."""
import json, os, sys, shutil, subprocess
sys.path.insert(0, os.path.dirname(os.path.abspath(__file__)))
from common import *
from engine_a import validate, aggregate
from engine_b import TRACE_CFG


def ensure(prop):
    d = os.path.join(WORK, f"{prop}_quick")
    if not os.path.exists(os.path.join(d, "tr.0.ndjson")):
        subprocess.run([os.path.join(VERIF, "check"), prop], check=False)
    return d


def judge(path, spec, wd):
    try:
        agg = aggregate(validate([path], wd, spec=spec, cfg=TRACE_CFG))
        return {"accepted": True, "findings": len(agg["viols"]) + len(agg["divs"]),
                "signatures": sorted({f'{v["prop"]}/{v["rule"]}' for v in agg["viols"] + agg["divs"]})[:6]}
    except ToolError as e:
        return {"accepted": False, "findings": 0, "signatures": [], "why": str(e)[:200]}


def slice_core(src, nprogs):
    out, n = [], 0
    for l in open(src):
        if l.startswith('{"e":"prog"'):
            n += 1
            if n > nprogs:
                break
        out.append(l)
    return out


def main():
    wd = workdir("selftest")
    report = {"what": __doc__.strip(), "cases": []}
    ok = True
    # ---- Engine A: TraceCore on a slice of the C09 traces
    lines = slice_core(os.path.join(ensure("C09"), "tr.0.ndjson"), 40)
    def write(name, ls):
        p = os.path.join(wd, name)
        with open(p, "w") as f:
            f.writelines(ls)
        return p
    clean = judge(write("core_clean.ndjson", lines), "TraceCore.tla", wd)
    report["cases"].append({"engine": "A/TraceCore", "corruption": "none (40 programs of the C09 quick run)", "result": clean, "expected": "accepted, 0 findings"})
    ok &= clean["accepted"] and clean["findings"] == 0
    ev = [json.loads(l) for l in lines]
    # (1) a recorded value altered: the first `exists` call that returned false now says true, the rest of the run unchanged
    i = next(k for k, e in enumerate(ev) if e.get("e") == "exit" and e.get("k") == "function call" and e["out"].get("v") == {"t": "bool", "v": False})
    c1 = list(lines)
    e = dict(ev[i]); e["out"] = {"o": "ok", "v": {"t": "bool", "v": True}}
    c1[i] = json.dumps(e) + "\n"
    r1 = judge(write("core_value.ndjson", c1), "TraceCore.tla", wd)
    report["cases"].append({"engine": "A/TraceCore", "corruption": f"line {i+1}: exit value of a predicate flipped false -> true (the branch taken afterwards no longer follows)", "result": r1,
                            "expected": "finding or rejection"})
    ok &= (not r1["accepted"]) or r1["findings"] > 0
    # (2) the events of one hook removed: an evaluated sub-expression disappears from the trace
    j = next(k for k, e in enumerate(ev) if e.get("e") == "enter" and e.get("k") == "literal" and ev[k + 1].get("e") == "exit")
    c2 = lines[:j] + lines[j + 2:]
    r2 = judge(write("core_hook.ndjson", c2), "TraceCore.tla", wd)
    report["cases"].append({"engine": "A/TraceCore", "corruption": f"lines {j+1}-{j+2}: enter/exit of one literal removed (as if Expr::resolve were not hooked there)", "result": r2,
                            "expected": "finding or rejection"})
    ok &= (not r2["accepted"]) or r2["findings"] > 0
    # (3) a target operation removed
    t = next(k for k, e in enumerate(ev) if e.get("e") == "T" and e.get("n", 0) > 0)
    c3 = lines[:t] + lines[t + 1:]
    r3 = judge(write("core_target.ndjson", c3), "TraceCore.tla", wd)
    report["cases"].append({"engine": "A/TraceCore", "corruption": f"line {t+1}: one target operation removed", "result": r3, "expected": "finding or rejection"})
    ok &= (not r3["accepted"]) or r3["findings"] > 0
    # ---- Engine C: FnLaws on C25 records, CrcTrace on C27 records
    for prop, spec, pick, mutate, what in (
        ("C25", "FnLaws.tla", lambda r: r.get("e") == "law" and r["law"]["name"] == "format_int" and r["r"]["fwd"]["k"] == "ok",
         lambda r: r["r"]["fwd"]["v"]["u"].__setitem__(-1, 48 if r["r"]["fwd"]["v"]["u"][-1] != 48 else 49), "last digit of a format_int result changed"),
        ("C27", "CrcTrace.tla", lambda r: r.get("e") == "law" and r["law"]["name"] == "crc" and not r["inp"]["published"] and r["r"]["out"]["k"] == "ok",
         lambda r: r["r"]["out"]["v"]["u"].__setitem__(-1, 48 if r["r"]["out"]["v"]["u"][-1] != 48 else 49), "last digit of a crc result changed"),
    ):
        src = os.path.join(ensure(prop), "tr.0.ndjson")
        recs = [json.loads(l) for l in open(src)][:60]
        cl = judge(write(f"{prop}_clean.ndjson", [json.dumps(r) + "\n" for r in recs]), spec, wd)
        known_ok = cl["accepted"]          # (the slice may contain known findings; what matters is the delta)
        k = next(i for i, r in enumerate(recs) if pick(r))
        mutate(recs[k])
        rr = judge(write(f"{prop}_corrupt.ndjson", [json.dumps(r) + "\n" for r in recs]), spec, wd)
        report["cases"].append({"engine": f"C/{spec}", "corruption": f"record {k+1}: {what}", "clean": cl, "result": rr, "expected": "one more finding than the clean slice"})
        ok &= known_ok and ((not rr["accepted"]) or rr["findings"] > cl["findings"])
    report["all_noticed"] = bool(ok)
    write_json(os.path.join(VERIF, "binding_selftest.json"), report)
    for c in report["cases"]:
        log(f'[selftest] {c["engine"]}: {c["corruption"]} -> {json.dumps(c["result"])[:160]}')
    log("[selftest] " + ("every corruption was noticed" if ok else "A CORRUPTION WENT UNNOTICED"))
    return 0 if ok else 2


if __name__ == "__main__":
    sys.exit(main())
