"""Shared plumbing for the /verif checks: building the harness against /repo's working tree,
running TLC, decoding the lines TLC prints, known findings, evidence and verdicts."""
import json, os, re, subprocess, sys, time, shutil, hashlib, concurrent.futures

VERIF = os.path.dirname(os.path.dirname(os.path.abspath(__file__)))
SPEC = os.path.join(VERIF, "spec")
HARNESS = os.path.join(VERIF, "harness")
VH = os.path.join(HARNESS, "target", "release", "vh")
WORK = os.path.join(VERIF, "work")
EVID = os.path.join(VERIF, "evidence")
REPLAYS = os.path.join(VERIF, "replays")
KNOWN = os.path.join(VERIF, "known_findings.json")
NCPU = os.cpu_count() or 4


class ToolError(Exception):
    pass


def log(*a):
    print(*a, file=sys.stderr, flush=True)


def workdir(name):
    d = os.path.join(WORK, name + ("_alt" if os.environ.get("VERIF_REPO", "/repo") != "/repo" else ""))
    shutil.rmtree(d, ignore_errors=True)
    os.makedirs(d, exist_ok=True)
    return d


REPO = os.environ.get("VERIF_REPO", "/repo")


def build_harness():
    """(Re)build the harness - and with it vrl from /repo's current working tree, hooks on.
    VERIF_REPO=<other checkout> (used only to try seeded changes without touching /repo while other checks run) builds a
    copy of the harness against that checkout under work/alt_harness and writes evidence under work/alt_evidence."""
    global VH, EVID
    t0 = time.time()
    env = dict(os.environ, CARGO_NET_OFFLINE="true")
    hdir = HARNESS
    if REPO != "/repo":
        hdir = os.path.join(WORK, "alt_harness")
        os.makedirs(hdir, exist_ok=True)
        shutil.rmtree(os.path.join(hdir, "src"), ignore_errors=True)
        shutil.copytree(os.path.join(HARNESS, "src"), os.path.join(hdir, "src"))
        shutil.copytree(os.path.join(HARNESS, ".cargo"), os.path.join(hdir, ".cargo"), dirs_exist_ok=True)
        with open(os.path.join(HARNESS, "Cargo.toml")) as f:
            toml = f.read().replace('path = "/repo"', f'path = "{REPO}"')
        with open(os.path.join(hdir, "Cargo.toml"), "w") as f:
            f.write(toml)
        VH = os.path.join(hdir, "target", "release", "vh")
        EVID = os.path.join(WORK, "alt_evidence")
        os.makedirs(EVID, exist_ok=True)
        for m in list(sys.modules.values()):      # modules that did `from common import *` hold their own copies
            if getattr(m, "VH", None) is not None and m is not sys.modules[__name__]:
                m.VH = VH
            if getattr(m, "EVID", None) is not None and m is not sys.modules[__name__]:
                m.EVID = EVID
    try:
        shutil.copyfile(os.path.join(REPO, "Cargo.lock"), os.path.join(hdir, "Cargo.lock"))
    except OSError as e:
        raise ToolError(f"cannot copy Cargo.lock: {e}")
    p = subprocess.run(["cargo", "build", "--release", "--offline"], cwd=hdir, env=env,
                       stdout=subprocess.PIPE, stderr=subprocess.STDOUT, text=True)
    if p.returncode != 0:
        raise ToolError("harness build failed:\n" + p.stdout[-4000:])
    log(f"[build] harness ok in {time.time()-t0:.1f}s" + ("" if REPO == "/repo" else f" (against {REPO})"))
    return VH


def load_scaled(ms):
    """A per-call deadline in ms, stretched when other work keeps the machine busier than its cores (the 1-minute load average
    per core, at least 1): a busy machine must not look like a call that does not terminate."""
    try:
        factor = max(1.0, os.getloadavg()[0] / (os.cpu_count() or 1))
    except OSError:
        factor = 1.0
    return str(int(ms * min(factor, 12.0)))


def run(cmd, cwd=None, env=None, timeout=None, check=True):
    p = subprocess.run(cmd, cwd=cwd, env=env, stdout=subprocess.PIPE, stderr=subprocess.STDOUT,
                       text=True, timeout=timeout)
    if check and p.returncode != 0:
        raise ToolError(f"command failed ({p.returncode}): {' '.join(cmd)}\n{p.stdout[-3000:]}")
    return p.stdout


_TLA_ESC = {'"': '"', "\\": "\\", "n": "\n", "t": "\t", "r": "\r", "f": "\f"}


def tla_unescape(s):
    out = []
    i = 0
    while i < len(s):
        c = s[i]
        if c == "\\" and i + 1 < len(s) and s[i + 1] in _TLA_ESC:
            out.append(_TLA_ESC[s[i + 1]])
            i += 2
        else:
            out.append(c)
            i += 1
    return "".join(out)


def printed(out, tag):
    """JSON payloads of lines `<<"TAG", "json">>` printed by TLC (PrintT of ToJson)."""
    res = []
    prefix = f'<<"{tag}", "'
    wide = f'<< "{tag}",'          # TLC's pretty-printer breaks long tuples over two lines
    lines = out.splitlines()
    for i, line in enumerate(lines):
        if line.startswith(prefix) and line.endswith('">>'):
            res.append(json.loads(tla_unescape(line[len(prefix):-3])))
        elif line.startswith(wide) and i + 1 < len(lines):
            nxt = lines[i + 1].strip()
            if nxt.startswith('"') and nxt.endswith('" >>'):
                res.append(json.loads(tla_unescape(nxt[1:-4])))
    return res


def tlc_stats(out):
    m = re.search(r"(\d+) states generated, (\d+) distinct states found", out)
    if not m:
        return 0, 0
    return int(m.group(2)), int(m.group(1))


def tlc(spec, cfg_text, wd, workers=4, env=None, timeout=600, name=None, extra=None, allow_error=False):
    """Run TLC on spec (module file name in /verif/spec) with the given cfg text."""
    name = name or os.path.splitext(spec)[0]
    cfg = os.path.join(wd, name + ".cfg")
    with open(cfg, "w") as f:
        f.write(cfg_text)
    e = dict(os.environ)
    e["JAVA_TOOL_OPTIONS"] = "-Xss1g -Dtlc2.tool.queue.IStateQueue=StateDeque"
    if env:
        e.update(env)
    cmd = ["timeout", str(timeout), "tlc", "-workers", str(workers), "-metadir", os.path.join(wd, "meta_" + name),
           "-cleanup", "-noGenerateSpecTE", "-checkpoint", "0", "-config", cfg] + (extra or []) + [os.path.join(SPEC, spec)]
    p = subprocess.run(cmd, cwd=wd, env=e, stdout=subprocess.PIPE, stderr=subprocess.STDOUT, text=True)
    out = p.stdout
    if p.returncode == 124:
        raise ToolError(f"TLC timed out after {timeout}s on {spec} ({name})")
    if "Error:" in out and "RESULT" not in out and "REPLAY" not in out and not allow_error:
        raise ToolError(f"TLC error on {spec} ({name}):\n" + out[-3000:])
    return out


def load_known():
    try:
        with open(KNOWN) as f:
            return json.load(f)
    except FileNotFoundError:
        return {"findings": [], "fixed": []}


def sig_of(v):
    return f"{v.get('prop')}/{v.get('rule')}/{v.get('at')}"


def write_json(path, obj):
    os.makedirs(os.path.dirname(path), exist_ok=True)
    tmp = path + ".tmp"
    with open(tmp, "w") as f:
        json.dump(obj, f, indent=1, sort_keys=False)
        f.write("\n")
    os.replace(tmp, path)


LAST_RUN = {}


def verdict(prop, tier, seed, level, coverage, violations, assumptions, t0, replay_writer=None):
    """violations: list of dicts with at least prop/rule/at (+ whatever identifies the case).
    Splits them into known findings and fresh violations, writes evidence, prints lines, exits."""
    known = load_known()
    ksigs = {f"{k['property']}/{k['rule']}/{k['at']}": k for k in known.get("findings", []) if "at" in k}
    fresh, hits = {}, {}
    # a finding may be listed for every case that has a given feature ("at_has": one of the '+'-joined
    # circumstances TLC put into `at`)
    khas = [(k["property"], k["rule"], k["at_has"], f"{k['property']}/{k['rule']}/~{k['at_has']}") for k in known.get("findings", []) if "at_has" in k]
    for _, _, _, ks in khas:
        ksigs[ks] = next(k for k in known["findings"] if k.get("at_has") and f"{k['property']}/{k['rule']}/~{k['at_has']}" == ks)
    for v in violations:
        s = sig_of(v)
        w = f"{v.get('prop')}/{v.get('rule')}/*"   # a finding may be listed for every construct (`at`: "*")
        if s not in ksigs and w in ksigs:
            s = w
        if s not in ksigs:
            feats = str(v.get("at", "")).split("+")
            for kp, kr, kf, ks in khas:
                if kp == v.get("prop") and kr == v.get("rule") and kf in feats:
                    s = ks
                    break
        if s in ksigs:
            hits.setdefault(s, []).append(v)
        else:
            fresh.setdefault(s, []).append(v)
    for s, vs in sorted(hits.items()):
        k = ksigs[s]
        print(f"KNOWN-FINDING: property={prop} {s}: {k.get('what', '')} ({len(vs)} occurrence(s) this run)")
    rc = 0
    replay_paths = []
    for s, vs in sorted(fresh.items()):
        path = os.path.join(REPLAYS, prop, re.sub(r"[^A-Za-z0-9_.-]+", "_", s) + ".json")
        payload = {"property": prop, "signature": s, "tier": tier, "seed": seed, "occurrences": len(vs), "first": vs[0]}
        if replay_writer:
            payload.update(replay_writer(vs[0]))
        write_json(path, payload)
        replay_paths.append(path)
        print(f"VIOLATION property={prop} replay={path}")
        rc = 1
    coverage = dict(coverage)
    LAST_RUN["signatures"] = sorted(set(hits.keys()) | set(fresh.keys()))
    coverage["known_findings_hit"] = {s: len(vs) for s, vs in hits.items()}
    coverage["fresh_violation_signatures"] = sorted(fresh.keys())
    ev = {"property_id": prop, "tier": tier, "seed": seed, "level": level, "coverage": coverage,
          "assumptions": assumptions, "wall_s": round(time.time() - t0, 2),
          "violations": sum(len(v) for v in fresh.values())}
    evdir = os.environ.get("VERIF_EVIDENCE_DIR", EVID)       # (a replay must not overwrite the check's evidence)
    os.makedirs(evdir, exist_ok=True)
    write_json(os.path.join(evdir, prop + ".json"), ev)
    return rc


def pool_map(fn, items, workers=None):
    with concurrent.futures.ThreadPoolExecutor(max_workers=workers or NCPU) as ex:
        return list(ex.map(fn, items))
