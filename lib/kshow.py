import json,glob,sys
def kshow(k):
    if not isinstance(k,dict): return str(k)
    parts=list(k.get('p',[]))
    if 'arr' in k:
        a=k['arr']; parts.append('arr[' + ', '.join(f"{i}:{kshow(x)}" for i,x in a['kn']) + ' ; ' + ushow(a['un']) + ']')
    if 'obj' in k:
        o=k['obj']; kn=o['kn'] if isinstance(o['kn'],dict) else {}
        parts.append('obj{' + ', '.join(f"{f}:{kshow(x)}" for f,x in kn.items()) + ' ; ' + ushow(o['un']) + '}')
    return '|'.join(parts) if parts else 'never'
def ushow(u):
    if 'x' in u: return '*:'+kshow(u['x'])
    return '*:inf(' + ('any' if 'timestamp' in u['inf']['p'] else 'json') + ')'
def vshow(v):
    t=v['t']
    if t=='none': return 'NONE'
    if t=='null': return 'null'
    if t=='int': return str(v.get('n'))
    if t=='bytes': return json.dumps(v.get('s'))
    if t=='arr': return '['+', '.join(vshow(x) for x in v['e'])+']'
    if t=='obj': return '{'+', '.join(f"{k}:{vshow(x)}" for k,x in (v['m'].items() if isinstance(v['m'],dict) else []))+'}'
    return str(v)
def pshow(p): return ''.join(('.'+s['f']) if 'f' in s else f"[{s['i']}]" for s in p) or '<root>'
if __name__=='__main__':
    pat=sys.argv[1] if len(sys.argv)>1 else '*'
    for f in sorted(glob.glob(f'/verif/replays/C19/{pat}.json')):
        r=json.load(open(f)); rec=r['record']
        print('==', r['signature'], r['occurrences'])
        print('  k =', kshow(rec['rt']), ' v =', vshow(rec['v']), ' p =', pshow(rec['p']), ' compact', rec['compact'])
        rule=r['signature'].split('/')[1]
        if rule.startswith('S1'): print('  vget', vshow(rec['vget']), ' at_path', kshow(rec['at_path']), ' get', kshow(rec['get']))
        if rule.startswith('S2'): print('  x', vshow(rec['x']), ' kx', kshow(rec['rtx']), ' vins', vshow(rec['vins']), ' ins', kshow(rec['ins']))
        if rule.startswith('S3'): print('  vrem', vshow(rec['vrem']['val']), ' removed', vshow(rec['vrem']['removed']), ' krem', kshow(rec['rem']['kind']), ' kremoved', kshow(rec['rem']['removed']))
        if rule.startswith('S4'): print('  v2', vshow(rec['v2']), ' k2', kshow(rec['rt2']), ' vmerge', vshow(rec['vmerge']), ' merge', kshow(rec['merge']))
