"""Engine C - operators, function contracts and laws, datadog search, grok, diagnostics, timezones."""
import json, os, time, random, itertools
from common import *
from engine_a import validate, aggregate
from engine_b import universes, run_cases, TRACE_CFG


def rand_limbs(rnd):
    style = rnd.random()
    if style < 0.3:
        x = rnd.getrandbits(64)
    elif style < 0.6:
        x = rnd.choice([0, 1, 2**31, 2**53, 2**63 - 1, 2**63, 2**64 - 1]) + rnd.randint(-3, 3)
    else:
        x = rnd.getrandbits(rnd.choice([8, 16, 32, 52, 53, 54, 62]))
        if rnd.random() < 0.5:
            x = -x
    x %= 2**64
    return [(x >> 48) & 0xffff, (x >> 32) & 0xffff, (x >> 16) & 0xffff, x & 0xffff]


def rand_float_bits(rnd):
    import struct
    while True:
        style = rnd.random()
        if style < 0.4:
            f = rnd.choice([0.0, -0.0, 1.0, -1.0, 0.1, 1e300, -1e300, 5e-324, float("inf"), float("-inf"), 2.0**53, 3.5])
        elif style < 0.7:
            f = float(rnd.randint(-2**40, 2**40)) / rnd.choice([1, 2, 3, 1024, 10**6])
        else:
            f = struct.unpack(">d", struct.pack(">Q", rnd.getrandbits(64)))[0]
        if f == f:
            x = struct.unpack(">Q", struct.pack(">d", f))[0]
            return [(x >> 48) & 0xffff, (x >> 32) & 0xffff, (x >> 16) & 0xffff, x & 0xffff]


def check_ops(prop, tier, seed):
    t0 = time.time()
    wd = workdir(f"{prop}_{tier}")
    build_harness()
    u, gst, gtr = universes("GenOps.tla", wd, ["INTS", "FLOATS", "STRS", "STAMPS", "OTHERS"])
    ints, floats, strs, stamps, others = u["INTS"], u["FLOATS"], u["STRS"], u["STAMPS"], u["OTHERS"]
    rnd = random.Random(seed)
    pools = [ints, floats, strs, stamps]
    cases = []
    for pool in pools:                      # all pairs within each comparable kind
        cases += [{"l": a, "r": b} for a in pool for b in pool]
    cases += [{"l": a, "r": b} for a in ints for b in floats] + [{"l": b, "r": a} for a in ints for b in floats]
    # string repetition: only small or negative counts (multi-gigabyte repetitions are out of scope: memory exhaustion)
    small = [i for i in ints if (i["w"][0] == 0 and i["w"][1] == 0 and i["w"][2] == 0 and i["w"][3] < 64) or i["w"][0] >= 32768]
    cases += [{"l": a, "r": b} for a in strs for b in small] + [{"l": b, "r": a} for a in strs for b in small]
    cases += [{"l": a, "r": b} for a in others for b in others]
    cases += [{"l": a, "r": b} for a in strs for b in others[:1]] + [{"l": b, "r": a} for a in strs for b in others[:1]]
    cases += [{"l": a, "r": b} for a in others for b in ints[:3] + floats[:3] + strs[:2]]
    n = 3000 if tier == "quick" else 100000
    for _ in range(n):
        k = rnd.random()
        if k < 0.4:
            cases.append({"l": {"t": "int", "w": rand_limbs(rnd)}, "r": {"t": "int", "w": rand_limbs(rnd)}})
        elif k < 0.65:
            cases.append({"l": {"t": "float", "b": rand_float_bits(rnd)}, "r": {"t": "float", "b": rand_float_bits(rnd)}})
        elif k < 0.85:
            a, b = {"t": "int", "w": rand_limbs(rnd)}, {"t": "float", "b": rand_float_bits(rnd)}
            cases.append({"l": a, "r": b} if rnd.random() < 0.5 else {"l": b, "r": a})
        else:
            mk = lambda: {"t": "bytes", "c": [rnd.choice([0, 97, 98, 255]) for _ in range(rnd.randint(0, 4))]}
            cases.append({"l": mk(), "r": mk()})
    log(f"[{prop}] {len(cases)} operand pairs x 10 operators ({time.time()-t0:.0f}s)")
    traces = run_cases(cases, wd, "ops", shards=NCPU)
    agg = aggregate(validate(traces, wd, spec="TraceOps.tla", cfg=TRACE_CFG))
    cnt = agg["cnt"]
    write_json(os.path.join(wd, "findings.json"), {"viols": agg["viols"][:200]})

    def replay_writer(v):
        with open(v["_file"]) as f:
            line = f.readlines()[v["line"] - 1]
        return {"engine": "C/ops", "record": json.loads(line)}

    coverage = {
        "evaluations": cnt.get("pairs", 0) * 10,
        "distinct_nontrivial": cnt.get("comparable_pairs", 0) if prop == "C10" else cnt.get("numeric_pairs", 0),
        "rule": "operand pairs: all pairs inside each TLC-defined edge pool (22 integers incl. 0, +-1, 2^31, 2^53+-1, MIN, MAX; 19 floats incl. "
                "+-0, subnormals, +-inf, 2^53(+2), extremes; 8 byte strings; 5 timestamps), all integer x float pairs both ways, strings x "
                "integers, structured and null/boolean values, plus seeded random pairs (quick 3000, thorough 100000); each pair through the "
                "ten compiled operator programs. non-trivial = " + ("both operands of the same comparable kind" if prop == "C10" else "both operands numeric"),
        "samples": cases[:2] + cases[-1:],
        "states": gst + agg["states"], "transitions": gtr + agg["transitions"],
        "traces_validated_against_impl": cnt.get("pairs", 0),
        "pairs": cnt.get("pairs", 0), "comparable_pairs": cnt.get("comparable_pairs", 0), "numeric_pairs": cnt.get("numeric_pairs", 0),
        "witnesses_for_other_properties": sorted({sig_of(v) for v in agg["viols"] if v["prop"] != prop}),
    }
    assumptions = ["integer arithmetic is checked against 64-bit wrapping arithmetic on limbs computed by TLC; float ORDER is checked against the "
                   "IEEE-754 bit fields; float ARITHMETIC is not modelled - mixed operations are compared bit for bit with the same operation "
                   "on the converted integer, executed by the same runtime",
                   "operators run through compiled programs (`.l OP .r`), so Op::resolve is on the path"]
    mine = [v for v in agg["viols"] if v["prop"] == prop]
    return verdict(prop, tier, seed, "exploration", coverage, mine, assumptions, t0, replay_writer)


CALLS_GEN_CFG = "SPECIFICATION Spec\nINVARIANT Emit\nCHECK_DEADLOCK FALSE\n"
_calls_cache = {}


def call_matrix(wd, tier, seed):
    """sigtable from the real code -> TLC call matrix -> flat list of worker jobs."""
    sig = os.path.join(wd, "sigtable.json")
    run([VH, "sigtable", "--out", sig], cwd=wd, timeout=300)
    out = tlc("GenCalls.tla", CALLS_GEN_CFG, wd, workers=min(8, NCPU), env={"SIGTABLE": sig}, name="GenCalls", timeout=1800)
    blocks = printed(out, "CALLS")
    if not blocks:
        raise ToolError("GenCalls produced nothing:\n" + out[-2000:])
    st, tr = tlc_stats(out)
    jobs = []
    for b in sorted(blocks, key=lambda b: b["f"]):
        for args in b["calls"]:
            jobs.append({"worker": "call", "f": b["f"], "ret": b["ret"], "args": args})
    jobs.sort(key=lambda j: json.dumps(j, sort_keys=True))
    return jobs, len(blocks), st, tr


def check_calls(prop, tier, seed, collect=False):
    t0 = time.time()
    wd = workdir(f"{prop}_{tier}" + ("_calls" if collect else ""))
    build_harness()
    jobs, nfn, gst, gtr = call_matrix(wd, tier, seed)
    total = len(jobs)
    rnd = random.Random(seed)
    rnd.shuffle(jobs)          # spread slow functions over the shards (the whole matrix runs in both tiers)
    log(f"[{prop}] {nfn} functions, {total} call tuples generated, running {len(jobs)} ({time.time()-t0:.0f}s)")
    cpath = os.path.join(wd, "cases.ndjson")
    with open(cpath, "w") as f:
        for c in jobs:
            f.write(json.dumps(c) + "\n")
    deadline = 10000
    run([VH, "calls", "--cases", cpath, "--out", os.path.join(wd, "tr"), "--shards", str(NCPU), "--deadline-ms", str(deadline)], cwd=wd, timeout=7200)
    traces = [os.path.join(wd, f"tr.{i}.ndjson") for i in range(NCPU)]
    log(f"[{prop}] calls executed ({time.time()-t0:.0f}s)")
    agg = aggregate(validate(traces, wd, spec="TraceCalls.tla", cfg=TRACE_CFG))
    cnt = agg["cnt"]
    write_json(os.path.join(wd, "findings.json"), {"viols": agg["viols"][:2000]})
    slow = 0
    fns_seen = set()
    for t in traces:
        with open(t) as f:
            for l in f:
                j = json.loads(l)
                fns_seen.add(j["f"])
                if j.get("ms", 0) > 1000:
                    slow += 1

    def replay_writer(v):
        with open(v["_file"]) as f:
            line = f.readlines()[v["line"] - 1]
        return {"engine": "C/calls", "record": json.loads(line)}

    nontriv = {"C03": cnt.get("k1_checked", 0) + cnt.get("k2_checked", 0), "C04": cnt.get("calls", 0) - cnt.get("rejected", 0),
               "C05": cnt.get("calls", 0) - cnt.get("rejected", 0)}[prop]
    if collect:
        return agg, cnt, replay_writer
    coverage = {
        "evaluations": cnt.get("calls", 0), "distinct_nontrivial": nontriv,
        "rule": "call tuples generated by TLC (GenCalls.tla) from the signature table exported from the real stdlib: per function the base call "
                "and, for every parameter, every candidate of every value kind (valid or not; edge integers MIN/MAX, signed zero, infinities, "
                "empty containers, hostile strings; enum variants + an undeclared one) as literal and as runtime-typed argument - the whole matrix "
                "in both tiers. Each call runs in a killable worker process (10 s deadline, 6 GB address space). "
                "non-trivial = the compiler accepted the call (so it really ran)",
        "samples": [{"f": j["f"], "args": [{"kw": a["kw"], "lit": a["lit"], "v": a["v"]} for a in j["args"]]} for j in jobs[:3]],
        "states": gst + agg["states"], "transitions": gtr + agg["transitions"], "traces_validated_against_impl": cnt.get("calls", 0),
        "functions": len(fns_seen), "call_tuples_generated": total, "calls_run": cnt.get("calls", 0),
        "outcomes": {k: cnt.get(k, 0) for k in ("ok", "err", "rejected", "panic", "timeout", "died")},
        "k1_checked": cnt.get("k1_checked", 0), "k2_checked": cnt.get("k2_checked", 0),
        "calls_with_wrong_runtime_argument": cnt.get("wrong_runtime_arg", 0), "calls_slower_than_1s": slow,
        "witnesses_for_other_properties": sorted({sig_of(v) for v in agg["viols"] if v["prop"] != prop}),
    }
    assumptions = ["declared type = the compiler's own record for the call expression (hook H2); return kinds = Function::return_kind()",
                   "network functions (http_request, dns_lookup, reverse_dns) are not called; memory exhaustion is out of scope (workers run under a 6 GB limit)",
                   "deadline 10 s per call for arguments of a few bytes: two orders of magnitude above the slowest legitimate call"]
    mine = [v for v in agg["viols"] if v["prop"] == prop]
    return verdict(prop, tier, seed, "exploration", coverage, mine, assumptions, t0, replay_writer)


def corpus_sources(wd):
    srcs = []
    root = "/repo/lib/tests/tests"
    for d, _, files in os.walk(root):
        for fn in sorted(files):
            if fn.endswith(".vrl"):
                try:
                    with open(os.path.join(d, fn), encoding="utf-8") as f:
                        srcs.append(f.read())
                except OSError:
                    pass
    ex = os.path.join(wd, "examples.ndjson")
    run([VH, "examples", "--out", ex], cwd=wd, timeout=300)
    with open(ex) as f:
        for l in f:
            srcs.append(json.loads(l)["src"])
    return sorted(set(srcs))


_TOK = None


def split_tokens(src):
    import re
    return re.findall(r"\w+|\s+|[^\w\s]", src)


def mutate(src, tokens, rnd):
    ts = split_tokens(src)
    if not ts:
        return src
    i = rnd.randrange(len(ts))
    k = rnd.random()
    if k < 0.25:
        del ts[i]
    elif k < 0.45:
        ts.insert(i, ts[i])
    elif k < 0.6 and i + 1 < len(ts):
        ts[i], ts[i + 1] = ts[i + 1], ts[i]
    elif k < 0.85:
        ts[i] = rnd.choice(tokens)
    else:
        # multi-byte identifiers / field names / string contents
        ts[i] = rnd.choice(["é", "ünï", "日本", "😀", ".é", ".\"ü b\"", "\"é😀\"", "é_1"])
    return "".join(ts)


def check_diag(prop, tier, seed, collect=False):
    """C33 (diagnostics well-formed and renderable) and the source-text part of C04."""
    t0 = time.time()
    wd = workdir(f"{prop}_{tier}" + ("_diag" if collect else ""))
    build_harness()
    u, gst, gtr = universes("GenTokens.tla", wd, ["TOKENS"])
    tokens = u["TOKENS"]
    rnd = random.Random(seed)
    srcs = [""]
    seqs = [[t] for t in tokens] + [[a, b] for a in tokens for b in tokens]
    n3 = 15000 if tier == "quick" else 120000
    nlong = 8000 if tier == "quick" else 80000
    for _ in range(n3):
        seqs.append([rnd.choice(tokens) for _ in range(3)])
    for _ in range(nlong):
        seqs.append([rnd.choice(tokens) for _ in range(rnd.randint(4, 7))])
    for s in seqs:
        srcs.append(" ".join(s))
        if rnd.random() < 0.3:
            srcs.append("".join(s))
    corpus = corpus_sources(wd)
    srcs += corpus
    nmut = 12000 if tier == "quick" else 150000
    for _ in range(nmut):
        m = mutate(rnd.choice(corpus), tokens, rnd)
        if rnd.random() < 0.3:
            m = mutate(m, tokens, rnd)
        srcs.append(m)
    srcs = [s for s in dict.fromkeys(srcs) if len(s) < 6000]
    jobs = [{"worker": "diag", "f": "diag", "id": i + 1, "src": s, "args": [], "ret": []} for i, s in enumerate(srcs)]
    log(f"[{prop}] {len(jobs)} source texts ({len(corpus)} corpus programs) ({time.time()-t0:.0f}s)")
    cpath = os.path.join(wd, "cases.ndjson")
    with open(cpath, "w") as f:
        for c in jobs:
            f.write(json.dumps(c) + "\n")
    run([VH, "calls", "--cases", cpath, "--out", os.path.join(wd, "tr"), "--shards", str(NCPU), "--deadline-ms", "10000"], cwd=wd, timeout=7200)
    traces = [os.path.join(wd, f"tr.{i}.ndjson") for i in range(NCPU)]
    log(f"[{prop}] compiled / rendered / run ({time.time()-t0:.0f}s)")
    agg = aggregate(validate(traces, wd, spec="TraceDiag.tla", cfg=TRACE_CFG))
    cnt = agg["cnt"]
    write_json(os.path.join(wd, "findings.json"), {"viols": agg["viols"][:500]})

    def replay_writer(v):
        with open(v["_file"]) as f:
            line = f.readlines()[v["line"] - 1]
        return {"engine": "C/diag", "record": json.loads(line)}

    if collect:
        return agg, cnt, replay_writer
    coverage = {
        "evaluations": cnt.get("sources", 0), "distinct_nontrivial": cnt.get("with_diagnostics", 0),
        "rule": "source texts: every sequence of <= 2 tokens of the GenTokens.tla alphabet (one representative per lexer token class plus "
                "multi-byte / escape-heavy variants), seeded sequences of 3-7 tokens (joined with and without spaces), the repository's 314 .vrl "
                "test programs and all stdlib examples, and seeded single/double token mutations of those (delete, duplicate, swap, replace by a "
                "token, replace by multi-byte identifiers/fields/strings). non-trivial = the compiler reported at least one diagnostic",
        "samples": [srcs[70], srcs[4000], srcs[-1]],
        "states": gst + agg["states"], "transitions": gtr + agg["transitions"], "traces_validated_against_impl": cnt.get("sources", 0),
        "sources": cnt.get("sources", 0), "accepted_programs_also_run": cnt.get("accepted", 0),
        "sources_with_diagnostics": cnt.get("with_diagnostics", 0), "labels_checked": cnt.get("labels", 0),
        "witnesses_for_other_properties": sorted({sig_of(v) for v in agg["viols"] if v["prop"] != prop}),
    }
    assumptions = ["char-boundary tests use str::is_char_boundary on the real source; rendering uses Formatter (plain and coloured)",
                   "sources longer than 6000 bytes are not generated; stack/memory exhaustion is out of scope"]
    mine = [v for v in agg["viols"] if v["prop"] == prop]
    return verdict(prop, tier, seed, "exploration", coverage, mine, assumptions, t0, replay_writer)


def check_panics(prop, tier, seed):
    """C04: nothing panics - arbitrary source texts (compile, render diagnostics, run), every stdlib call tuple of the
    matrix, and the TLC-generated programs of the language core on every event."""
    t0 = time.time()
    a1, c1, rw1 = check_diag(prop, tier, seed, collect=True)
    a2, c2, rw2 = check_calls(prop, tier, seed, collect=True)
    import engine_a
    wd = workdir(f"{prop}_{tier}_core")
    viols3, runs3, st3 = [], 0, 0
    for focus in ("C09", "C13", "C08", "C15"):
        cases, events, gst, gtr = engine_a.generate(focus, "quick", wd)
        shards = max(1, min(NCPU, len(cases) // 8))
        traces = engine_a.replay(cases, events, wd, shards)
        agg = engine_a.aggregate(engine_a.validate(traces, wd))
        viols3 += [v for v in agg["viols"] if v["prop"] == prop]
        runs3 += agg["cnt"].get("runs", 0)
        st3 += agg["states"]
    mine = [dict(v, _src="diag") for v in a1["viols"] if v["prop"] == prop] + [dict(v, _src="calls") for v in a2["viols"] if v["prop"] == prop] \
        + [dict(v, _src="core") for v in viols3]

    def replay_writer(v):
        if v.get("_src") == "diag":
            return rw1(v)
        if v.get("_src") == "calls":
            return rw2(v)
        return {"engine": "A", "first": {k: v[k] for k in v if not k.startswith("_")}}

    coverage = {
        "evaluations": c1.get("sources", 0) + c2.get("calls", 0) + runs3,
        "distinct_nontrivial": c1.get("sources", 0) + (c2.get("calls", 0) - c2.get("rejected", 0)) + runs3,
        "rule": "three input spaces, all executed in ways that turn a panic into data (catch_unwind inside killable worker processes): (1) source "
                "texts as in C33 - compiled, every diagnostic rendered plain and coloured, accepted programs run; (2) the full stdlib call matrix "
                "as in C03; (3) the TLC-generated programs of the C08/C09/C13/C15 grammars on every event with hooks on. every executed case "
                "counts (a rejected call tuple does not)",
        "samples": [{"source_texts": c1.get("sources", 0)}, {"stdlib_calls": c2.get("calls", 0), "outcomes": {k: c2.get(k, 0) for k in ("ok", "err", "rejected", "panic", "timeout", "died")}},
                    {"core_program_runs": runs3}],
        "states": a1["states"] + a2["states"] + st3, "transitions": a1["transitions"] + a2["transitions"] + st3,
        "traces_validated_against_impl": c1.get("sources", 0) + c2.get("calls", 0) + runs3,
    }
    assumptions = ["memory / stack exhaustion is out of scope (workers run under a 6 GB limit; sources < 6000 bytes; repetition counts are bounded)",
                   "the harness is built in release mode: debug-only overflow checks (e.g. negating i64::MIN) do not panic there"]
    return verdict(prop, tier, seed, "exploration", coverage, mine, assumptions, t0, replay_writer)
