"""Engine C - operators, function contracts and laws, datadog search, grok, diagnostics, timezones."""
import re
import json, os, time, random, itertools
from common import *
from engine_a import validate, aggregate
from engine_b import universes, run_cases, TRACE_CFG


def rand_limbs(rnd):
    style = rnd.random()
    if style < 0.3:
        x = rnd.getrandbits(64)
    elif style < 0.6:
        x = rnd.choice([0, 1, 2**31, 2**53, 2**63 - 1, 2**63, 2**64 - 1]) + rnd.randint(-3, 3)
    else:
        x = rnd.getrandbits(rnd.choice([8, 16, 32, 52, 53, 54, 62]))
        if rnd.random() < 0.5:
            x = -x
    x %= 2**64
    return [(x >> 48) & 0xffff, (x >> 32) & 0xffff, (x >> 16) & 0xffff, x & 0xffff]


def rand_float_bits(rnd):
    import struct
    while True:
        style = rnd.random()
        if style < 0.4:
            f = rnd.choice([0.0, -0.0, 1.0, -1.0, 0.1, 1e300, -1e300, 5e-324, float("inf"), float("-inf"), 2.0**53, 3.5])
        elif style < 0.7:
            f = float(rnd.randint(-2**40, 2**40)) / rnd.choice([1, 2, 3, 1024, 10**6])
        else:
            f = struct.unpack(">d", struct.pack(">Q", rnd.getrandbits(64)))[0]
        if f == f:
            x = struct.unpack(">Q", struct.pack(">d", f))[0]
            return [(x >> 48) & 0xffff, (x >> 32) & 0xffff, (x >> 16) & 0xffff, x & 0xffff]


def check_ops(prop, tier, seed):
    t0 = time.time()
    wd = workdir(f"{prop}_{tier}")
    build_harness()
    u, gst, gtr = universes("GenOps.tla", wd, ["INTS", "FLOATS", "STRS", "STAMPS", "OTHERS"])
    ints, floats, strs, stamps, others = u["INTS"], u["FLOATS"], u["STRS"], u["STAMPS"], u["OTHERS"]
    rnd = random.Random(seed)
    pools = [ints, floats, strs, stamps]
    cases = []
    for pool in pools:                      # all pairs within each comparable kind
        cases += [{"l": a, "r": b} for a in pool for b in pool]
    cases += [{"l": a, "r": b} for a in ints for b in floats] + [{"l": b, "r": a} for a in ints for b in floats]
    # string repetition: only small or negative counts (multi-gigabyte repetitions are out of scope: memory exhaustion)
    small = [i for i in ints if (i["w"][0] == 0 and i["w"][1] == 0 and i["w"][2] == 0 and i["w"][3] < 64) or i["w"][0] >= 32768]
    cases += [{"l": a, "r": b} for a in strs for b in small] + [{"l": b, "r": a} for a in strs for b in small]
    cases += [{"l": a, "r": b} for a in others for b in others]
    cases += [{"l": a, "r": b} for a in strs for b in others[:1]] + [{"l": b, "r": a} for a in strs for b in others[:1]]
    cases += [{"l": a, "r": b} for a in others for b in ints[:3] + floats[:3] + strs[:2]]
    n = 3000 if tier == "quick" else 100000
    for _ in range(n):
        k = rnd.random()
        if k < 0.4:
            cases.append({"l": {"t": "int", "w": rand_limbs(rnd)}, "r": {"t": "int", "w": rand_limbs(rnd)}})
        elif k < 0.65:
            cases.append({"l": {"t": "float", "b": rand_float_bits(rnd)}, "r": {"t": "float", "b": rand_float_bits(rnd)}})
        elif k < 0.85:
            a, b = {"t": "int", "w": rand_limbs(rnd)}, {"t": "float", "b": rand_float_bits(rnd)}
            cases.append({"l": a, "r": b} if rnd.random() < 0.5 else {"l": b, "r": a})
        else:
            mk = lambda: {"t": "bytes", "c": [rnd.choice([0, 97, 98, 255]) for _ in range(rnd.randint(0, 4))]}
            cases.append({"l": mk(), "r": mk()})
    log(f"[{prop}] {len(cases)} operand pairs x 10 operators ({time.time()-t0:.0f}s)")
    traces = run_cases(cases, wd, "ops", shards=NCPU)
    agg = aggregate(validate(traces, wd, spec="TraceOps.tla", cfg=TRACE_CFG))
    cnt = agg["cnt"]
    write_json(os.path.join(wd, "findings.json"), {"viols": agg["viols"][:200]})

    def replay_writer(v):
        with open(v["_file"]) as f:
            line = f.readlines()[v["line"] - 1]
        return {"engine": "C/ops", "record": json.loads(line)}

    coverage = {
        "evaluations": cnt.get("pairs", 0) * 10,
        "distinct_nontrivial": cnt.get("comparable_pairs", 0) if prop == "C10" else cnt.get("numeric_pairs", 0),
        "rule": "operand pairs: all pairs inside each TLC-defined edge pool (22 integers incl. 0, +-1, 2^31, 2^53+-1, MIN, MAX; 19 floats incl. "
                "+-0, subnormals, +-inf, 2^53(+2), extremes; 8 byte strings; 5 timestamps), all integer x float pairs both ways, strings x "
                "integers, structured and null/boolean values, plus seeded random pairs (quick 3000, thorough 100000); each pair through the "
                "ten compiled operator programs. non-trivial = " + ("both operands of the same comparable kind" if prop == "C10" else "both operands numeric"),
        "samples": cases[:2] + cases[-1:],
        "states": gst + agg["states"], "transitions": gtr + agg["transitions"],
        "traces_validated_against_impl": cnt.get("pairs", 0),
        "pairs": cnt.get("pairs", 0), "comparable_pairs": cnt.get("comparable_pairs", 0), "numeric_pairs": cnt.get("numeric_pairs", 0),
        "witnesses_for_other_properties": sorted({sig_of(v) for v in agg["viols"] if v["prop"] != prop}),
    }
    assumptions = ["integer arithmetic is checked against 64-bit wrapping arithmetic on limbs computed by TLC; float ORDER is checked against the "
                   "IEEE-754 bit fields; float ARITHMETIC is not modelled - mixed operations are compared bit for bit with the same operation "
                   "on the converted integer, executed by the same runtime",
                   "operators run through compiled programs (`.l OP .r`), so Op::resolve is on the path"]
    mine = [v for v in agg["viols"] if v["prop"] == prop]
    return verdict(prop, tier, seed, "exploration", coverage, mine, assumptions, t0, replay_writer)


CALLS_GEN_CFG = "SPECIFICATION Spec\nINVARIANT Emit\nCHECK_DEADLOCK FALSE\n"
_calls_cache = {}


def call_matrix(wd, tier, seed):
    """sigtable from the real code -> TLC call matrix -> flat list of worker jobs."""
    sig = os.path.join(wd, "sigtable.json")
    run([VH, "sigtable", "--out", sig], cwd=wd, timeout=300)
    out = tlc("GenCalls.tla", CALLS_GEN_CFG, wd, workers=min(8, NCPU), env={"SIGTABLE": sig}, name="GenCalls", timeout=1800)
    blocks = printed(out, "CALLS")
    if not blocks:
        raise ToolError("GenCalls produced nothing:\n" + out[-2000:])
    st, tr = tlc_stats(out)
    jobs = []
    for b in sorted(blocks, key=lambda b: b["f"]):
        for args in b["calls"]:
            jobs.append({"worker": "call", "f": b["f"], "ret": b["ret"], "args": args})
    jobs.sort(key=lambda j: json.dumps(j, sort_keys=True))
    return jobs, len(blocks), st, tr


def check_calls(prop, tier, seed, collect=False):
    t0 = time.time()
    wd = workdir(f"{prop}_{tier}" + ("_calls" if collect else ""))
    build_harness()
    jobs, nfn, gst, gtr = call_matrix(wd, tier, seed)
    total = len(jobs)
    rnd = random.Random(seed)
    rnd.shuffle(jobs)          # spread slow functions over the shards (the whole matrix runs in both tiers)
    log(f"[{prop}] {nfn} functions, {total} call tuples generated, running {len(jobs)} ({time.time()-t0:.0f}s)")
    cpath = os.path.join(wd, "cases.ndjson")
    with open(cpath, "w") as f:
        for c in jobs:
            f.write(json.dumps(c) + "\n")
    deadline = 10000
    run([VH, "calls", "--cases", cpath, "--out", os.path.join(wd, "tr"), "--shards", str(NCPU), "--deadline-ms", load_scaled(deadline)], cwd=wd, timeout=7200)
    traces = [os.path.join(wd, f"tr.{i}.ndjson") for i in range(NCPU)]
    log(f"[{prop}] calls executed ({time.time()-t0:.0f}s)")
    agg = aggregate(validate(traces, wd, spec="TraceCalls.tla", cfg=TRACE_CFG))
    cnt = agg["cnt"]
    write_json(os.path.join(wd, "findings.json"), {"viols": agg["viols"][:2000]})
    slow = 0
    fns_seen = set()
    for t in traces:
        with open(t) as f:
            for l in f:
                j = json.loads(l)
                fns_seen.add(j["f"])
                if j.get("ms", 0) > 1000:
                    slow += 1

    def replay_writer(v):
        with open(v["_file"]) as f:
            line = f.readlines()[v["line"] - 1]
        return {"engine": "C/calls", "record": json.loads(line)}

    nontriv = {"C03": cnt.get("k1_checked", 0) + cnt.get("k2_checked", 0), "C04": cnt.get("calls", 0) - cnt.get("rejected", 0),
               "C05": cnt.get("calls", 0) - cnt.get("rejected", 0)}[prop]
    if collect:
        return agg, cnt, replay_writer
    coverage = {
        "evaluations": cnt.get("calls", 0), "distinct_nontrivial": nontriv,
        "rule": "call tuples generated by TLC (GenCalls.tla) from the signature table exported from the real stdlib: per function the base call "
                "and, for every parameter, every candidate of every value kind (valid or not; edge integers MIN/MAX, signed zero, infinities, "
                "empty containers, hostile strings; enum variants + an undeclared one) as literal and as runtime-typed argument - the whole matrix "
                "in both tiers. Each call runs in a killable worker process (10 s deadline, 6 GB address space). "
                "non-trivial = the compiler accepted the call (so it really ran)",
        "samples": [{"f": j["f"], "args": [{"kw": a["kw"], "lit": a["lit"], "v": a["v"]} for a in j["args"]]} for j in jobs[:3]],
        "states": gst + agg["states"], "transitions": gtr + agg["transitions"], "traces_validated_against_impl": cnt.get("calls", 0),
        "functions": len(fns_seen), "call_tuples_generated": total, "calls_run": cnt.get("calls", 0),
        "outcomes": {k: cnt.get(k, 0) for k in ("ok", "err", "rejected", "panic", "timeout", "died")},
        "k1_checked": cnt.get("k1_checked", 0), "k2_checked": cnt.get("k2_checked", 0),
        "calls_with_wrong_runtime_argument": cnt.get("wrong_runtime_arg", 0), "calls_slower_than_1s": slow,
        "witnesses_for_other_properties": sorted({sig_of(v) for v in agg["viols"] if v["prop"] != prop}),
    }
    assumptions = ["declared type = the compiler's own record for the call expression (hook H2); return kinds = Function::return_kind()",
                   "network functions (http_request, dns_lookup, reverse_dns) are not called; memory exhaustion is out of scope (workers run under a 6 GB limit)",
                   "deadline 10 s per call for arguments of a few bytes: two orders of magnitude above the slowest legitimate call"]
    mine = [v for v in agg["viols"] if v["prop"] == prop]
    return verdict(prop, tier, seed, "exploration", coverage, mine, assumptions, t0, replay_writer)


def corpus_sources(wd):
    srcs = []
    root = "/repo/lib/tests/tests"
    for d, _, files in os.walk(root):
        for fn in sorted(files):
            if fn.endswith(".vrl"):
                try:
                    with open(os.path.join(d, fn), encoding="utf-8") as f:
                        srcs.append(f.read())
                except OSError:
                    pass
    ex = os.path.join(wd, "examples.ndjson")
    run([VH, "examples", "--out", ex], cwd=wd, timeout=300)
    with open(ex) as f:
        for l in f:
            srcs.append(json.loads(l)["src"])
    return sorted(set(srcs))


_TOK = None


def split_tokens(src):
    import re
    return re.findall(r"\w+|\s+|[^\w\s]", src)


def mutate(src, tokens, rnd):
    ts = split_tokens(src)
    if not ts:
        return src
    i = rnd.randrange(len(ts))
    k = rnd.random()
    if k < 0.25:
        del ts[i]
    elif k < 0.45:
        ts.insert(i, ts[i])
    elif k < 0.6 and i + 1 < len(ts):
        ts[i], ts[i + 1] = ts[i + 1], ts[i]
    elif k < 0.85:
        ts[i] = rnd.choice(tokens)
    else:
        # multi-byte identifiers / field names / string contents
        ts[i] = rnd.choice(["é", "ünï", "日本", "😀", ".é", ".\"ü b\"", "\"é😀\"", "é_1"])
    return "".join(ts)


def check_diag(prop, tier, seed, collect=False):
    """C33 (diagnostics well-formed and renderable) and the source-text part of C04."""
    t0 = time.time()
    wd = workdir(f"{prop}_{tier}" + ("_diag" if collect else ""))
    build_harness()
    u, gst, gtr = universes("GenTokens.tla", wd, ["TOKENS", "CLOSURE_SOURCES", "ARITY_CALLS"])
    tokens = u["TOKENS"]
    rnd = random.Random(seed)
    srcs = [""]
    seqs = [[t] for t in tokens] + [[a, b] for a in tokens for b in tokens]
    n3 = 15000 if tier == "quick" else 120000
    nlong = 8000 if tier == "quick" else 80000
    for _ in range(n3):
        seqs.append([rnd.choice(tokens) for _ in range(3)])
    for _ in range(nlong):
        seqs.append([rnd.choice(tokens) for _ in range(rnd.randint(4, 7))])
    for s in seqs:
        srcs.append(" ".join(s))
        if rnd.random() < 0.3:
            srcs.append("".join(s))
    corpus = corpus_sources(wd)
    srcs += corpus
    # span-arithmetic stress: multi-byte whitespace before an expression, quoted multi-byte fields in assignment targets
    srcs += ["x =\u00a0to_string(.a)", "x = 1\nx.\"é\\\"\\\"\" = 2", ".\"é\".b = to_int(.a)", "é = 1\né.a.b = 2\né.a = 3", "x = 1\nx.é = to_int(.é)",
             "\u00a0.a = to_int(.b)", "if\u00a0.é { 1 }", "[1,\u00a0to_int(.é)]", "upcase(\u00a0.é\u00a0)", "{ \"é\": to_int(.a) }"]
    srcs += u["CLOSURE_SOURCES"] + u["ARITY_CALLS"]
    nmut = 12000 if tier == "quick" else 150000
    for _ in range(nmut):
        m = mutate(rnd.choice(corpus), tokens, rnd)
        if rnd.random() < 0.3:
            m = mutate(m, tokens, rnd)
        srcs.append(m)
    srcs = [s for s in dict.fromkeys(srcs) if len(s) < 6000]
    jobs = [{"worker": "diag", "f": "diag", "id": i + 1, "src": s, "args": [], "ret": []} for i, s in enumerate(srcs)]
    log(f"[{prop}] {len(jobs)} source texts ({len(corpus)} corpus programs) ({time.time()-t0:.0f}s)")
    cpath = os.path.join(wd, "cases.ndjson")
    with open(cpath, "w") as f:
        for c in jobs:
            f.write(json.dumps(c) + "\n")
    run([VH, "calls", "--cases", cpath, "--out", os.path.join(wd, "tr"), "--shards", str(NCPU), "--deadline-ms", load_scaled(10000)], cwd=wd, timeout=7200)
    traces = [os.path.join(wd, f"tr.{i}.ndjson") for i in range(NCPU)]
    log(f"[{prop}] compiled / rendered / run ({time.time()-t0:.0f}s)")
    agg = aggregate(validate(traces, wd, spec="TraceDiag.tla", cfg=TRACE_CFG))
    cnt = agg["cnt"]
    write_json(os.path.join(wd, "findings.json"), {"viols": agg["viols"][:500]})

    def replay_writer(v):
        with open(v["_file"]) as f:
            line = f.readlines()[v["line"] - 1]
        return {"engine": "C/diag", "record": json.loads(line)}

    if collect:
        return agg, cnt, replay_writer
    coverage = {
        "evaluations": cnt.get("sources", 0), "distinct_nontrivial": cnt.get("with_diagnostics", 0),
        "rule": "source texts: every sequence of <= 2 tokens of the GenTokens.tla alphabet (one representative per lexer token class plus "
                "multi-byte / escape-heavy variants), seeded sequences of 3-7 tokens (joined with and without spaces), the repository's 314 .vrl "
                "test programs and all stdlib examples, and seeded single/double token mutations of those (delete, duplicate, swap, replace by a "
                "token, replace by multi-byte identifiers/fields/strings). non-trivial = the compiler reported at least one diagnostic",
        "samples": [srcs[70], srcs[4000], srcs[-1]],
        "states": gst + agg["states"], "transitions": gtr + agg["transitions"], "traces_validated_against_impl": cnt.get("sources", 0),
        "sources": cnt.get("sources", 0), "accepted_programs_also_run": cnt.get("accepted", 0),
        "sources_with_diagnostics": cnt.get("with_diagnostics", 0), "labels_checked": cnt.get("labels", 0),
        "sources_ending_in_memory_or_stack_exhaustion_not_judged": cnt.get("exhausted", 0),
        "witnesses_for_other_properties": sorted({sig_of(v) for v in agg["viols"] if v["prop"] != prop}),
    }
    assumptions = ["char-boundary tests use str::is_char_boundary on the real source; rendering uses Formatter (plain and coloured)",
                   "sources longer than 6000 bytes are not generated; stack/memory exhaustion is out of scope"]
    mine = [v for v in agg["viols"] if v["prop"] == prop]
    return verdict(prop, tier, seed, "exploration", coverage, mine, assumptions, t0, replay_writer)


def check_panics(prop, tier, seed):
    """C04: nothing panics - arbitrary source texts (compile, render diagnostics, run), every stdlib call tuple of the
    matrix, and the TLC-generated programs of the language core on every event."""
    t0 = time.time()
    a1, c1, rw1 = check_diag(prop, tier, seed, collect=True)
    a2, c2, rw2 = check_calls(prop, tier, seed, collect=True)
    import engine_a
    wd = workdir(f"{prop}_{tier}_core")
    viols3, runs3, st3 = [], 0, 0
    for focus in ("C09", "C13", "C08", "C15"):
        cases, events, gst, gtr = engine_a.generate(focus, "quick", wd)
        shards = max(1, min(NCPU, len(cases) // 8))
        traces = engine_a.replay(cases, events, wd, shards)
        agg = engine_a.aggregate(engine_a.validate(traces, wd))
        viols3 += [v for v in agg["viols"] if v["prop"] == prop]
        runs3 += agg["cnt"].get("runs", 0)
        st3 += agg["states"]
    mine = [dict(v, _src="diag") for v in a1["viols"] if v["prop"] == prop] + [dict(v, _src="calls") for v in a2["viols"] if v["prop"] == prop] \
        + [dict(v, _src="core") for v in viols3]

    def replay_writer(v):
        if v.get("_src") == "diag":
            return rw1(v)
        if v.get("_src") == "calls":
            return rw2(v)
        return {"engine": "A", "first": {k: v[k] for k in v if not k.startswith("_")}}

    coverage = {
        "evaluations": c1.get("sources", 0) + c2.get("calls", 0) + runs3,
        "distinct_nontrivial": c1.get("sources", 0) + (c2.get("calls", 0) - c2.get("rejected", 0)) + runs3,
        "rule": "three input spaces, all executed in ways that turn a panic into data (catch_unwind inside killable worker processes): (1) source "
                "texts as in C33 - compiled, every diagnostic rendered plain and coloured, accepted programs run; (2) the full stdlib call matrix "
                "as in C03; (3) the TLC-generated programs of the C08/C09/C13/C15 grammars on every event with hooks on. every executed case "
                "counts (a rejected call tuple does not)",
        "samples": [{"source_texts": c1.get("sources", 0), "ended_in_memory_or_stack_exhaustion_not_judged": c1.get("exhausted", 0)}, {"stdlib_calls": c2.get("calls", 0), "outcomes": {k: c2.get(k, 0) for k in ("ok", "err", "rejected", "panic", "timeout", "died")}},
                    {"core_program_runs": runs3}],
        "states": a1["states"] + a2["states"] + st3, "transitions": a1["transitions"] + a2["transitions"] + st3,
        "traces_validated_against_impl": c1.get("sources", 0) + c2.get("calls", 0) + runs3,
    }
    assumptions = ["memory / stack exhaustion is out of scope (workers run under a 6 GB limit; sources < 6000 bytes; repetition counts are bounded)",
                   "the harness is built in release mode: debug-only overflow checks (e.g. negating i64::MIN) do not panic there"]
    return verdict(prop, tier, seed, "exploration", coverage, mine, assumptions, t0, replay_writer)


# ---------------------------------------------------------------------------------------------
# law engines (C24 C25 C28): expressions evaluated by the harness' `eval` job, predicates in FnLaws.tla

def lstr(s):
    return {"t": "bytes", "s": s, "u": [ord(c) for c in s]}


def lint(n):
    x = n % 2**64
    return {"t": "int", "w": [(x >> 48) & 0xffff, (x >> 32) & 0xffff, (x >> 16) & 0xffff, x & 0xffff], "n": n if abs(n) <= 2**30 else "big"}


def lobj(d):
    ks = sorted(d.keys(), key=lambda k: k.encode("utf-8"))
    return {"t": "obj", "m": {k: d[k] for k in ks}, "ks": [{"s": k, "u": [ord(c) for c in k]} for k in ks]}


def larr(xs):
    return {"t": "arr", "e": list(xs)}


def plain(v):
    """law encoding -> transport encoding for the event"""
    t = v["t"]
    if t == "bytes":
        return {"t": "bytes", "s": v["s"]} if "s" in v else {"t": "bytes", "c": v["c"]}
    if t == "int":
        return {"t": "int", "w": v["w"]} if v.get("n") == "big" else {"t": "int", "n": v["n"]}
    if t == "arr":
        return {"t": "arr", "e": [plain(x) for x in v["e"]]}
    if t == "obj":
        return {"t": "obj", "m": {k: plain(x) for k, x in v["m"].items()}}
    return v


def strings_upto(alphabet, n):
    out = [""]
    for k in range(1, n + 1):
        out += ["".join(chr(c) for c in t) for t in itertools.product(alphabet, repeat=k)]
    return out


def law_cases(prop, tier, rnd, U):
    A = U["STR_ALPHABET"]
    KV = U["KV_ALPHABET"]
    cases = []

    def add(name, fn, exprs, inp, extra_event=None):
        ev = {k: plain(v) for k, v in inp.items() if isinstance(v, dict) and "t" in v}
        for k, v in inp.items():
            if isinstance(v, bool):
                ev[k] = {"t": "bool", "v": v}
            elif isinstance(v, int):
                ev[k] = {"t": "int", "n": v}
        cases.append({"worker": "eval", "f": fn, "args": [], "ret": [], "src": f"{name}:{fn}", "law": {"name": name, "fn": fn}, "inp": inp,
                      "event": {"t": "obj", "m": ev}, "exprs": exprs})

    if prop == "C28":
        S3 = strings_upto(A, 2 if tier == "quick" else 3)
        if tier == "quick":
            S3 = S3 + ["".join(chr(rnd.choice(A)) for _ in range(rnd.randint(3, 6))) for _ in range(600)]
        for fn in ["upcase", "downcase", "camelcase", "snakecase", "kebabcase", "pascalcase", "screamingsnakecase", "strip_whitespace"]:
            for s in S3:
                add("idempotent", fn, {"once": f"{fn}!(.s)", "twice": f"{fn}!({fn}!(.s))"}, {"s": lstr(s)})
        for s in S3:
            add("strip_whitespace", "strip_whitespace", {"out": "strip_whitespace!(.s)"}, {"s": lstr(s)})
            add("strlen", "strlen", {"out": "strlen!(.s)"}, {"s": lstr(s)})
        subs = [s for s in S3 if len(s) <= 2]
        for s in (S3 if tier != "quick" else rnd.sample(S3, 500)):
            for d in rnd.sample(subs, 12):
                add("substring", "starts_with/ends_with/contains", {"starts": "starts_with!(.s, .d)", "ends": "ends_with!(.s, .d)", "has": "contains!(.s, .d)"},
                    {"s": lstr(s), "d": lstr(d)})
            for dc in U["DELIMS"]:
                add("split_join", "split/join", {"parts": "split!(.s, .d)", "joined": "join!(split!(.s, .d), .d)"}, {"s": lstr(s), "d": lstr(chr(dc))})
            for n in (0, 1, 2, 5):
                for suffix in (False, True):
                    add("truncate", "truncate", {"out": "truncate!(.s, .n, suffix: \"...\")" if suffix else "truncate!(.s, .n)"},
                        {"s": lstr(s), "n": n, "suffix": suffix})
            for a in (-7, -2, -1, 0, 1, 2):
                for b in (-1, 0, 1, 2, 3, 9):
                    if rnd.random() < (0.25 if tier == "quick" else 1.0):
                        add("slice_str", "slice", {"out": "slice!(.s, .a, .b)"}, {"s": lstr(s), "a": a, "b": b})
        elems = [lint(1), lint(2), lstr("a"), lstr(""), {"t": "null"}, larr([]), lobj({}), lstr("b"), lint(1)]
        arrays = [larr(t) for k in range(0, 4) for t in itertools.product(elems[:7], repeat=k)]
        if tier == "quick":
            arrays = rnd.sample(arrays, 400)
        for a in arrays:
            add("unique", "unique", {"out": "unique!(.a)"}, {"a": a})
            add("compact_arr", "compact", {"out": "compact!(.a)"}, {"a": a})
        keys = ["a", "b", "é", "a b", ""]
        vals = [lint(1), lstr("x"), {"t": "null"}, lobj({"k": lint(1)}), larr([lint(1)])]
        objs = []
        for k in range(0, 4):
            for ks in itertools.combinations(keys, k):
                objs.append(lobj({kk: rnd.choice(vals) for kk in ks}))
        for o in objs:
            add("keys_values_length", "keys/values/length", {"keys": "keys!(.o)", "vals": "values!(.o)", "len": "length!(.o)"}, {"o": o})
            for o2 in rnd.sample(objs, 6):
                add("merge", "merge", {"out": "merge!(.o, .o2)"}, {"o": o, "o2": o2})
    elif prop == "C24":
        K = [s for s in strings_upto(KV, 2 if tier == "quick" else 3) if s]
        if tier == "quick":
            K = K + ["".join(chr(rnd.choice(KV)) for _ in range(3)) for _ in range(300)]
        good_keys = [k for k in K]
        for v in K:
            for key in rnd.sample(good_keys, 3):
                o = lobj({key: lstr(v)})
                add("kv_roundtrip", "encode_key_value/parse_key_value", {"enc": "encode_key_value!(.o)", "dec": "parse_key_value!(encode_key_value!(.o))"}, {"o": o})
                add("kv_roundtrip", "encode_key_value/parse_key_value(:,)", {"enc": "encode_key_value!(.o, key_value_delimiter: \":\", field_delimiter: \",\")",
                     "dec": "parse_key_value!(encode_key_value!(.o, key_value_delimiter: \":\", field_delimiter: \",\"), key_value_delimiter: \":\", field_delimiter: \",\")"}, {"o": o})
                add("kv_roundtrip", "encode_logfmt/parse_logfmt", {"enc": "encode_logfmt!(.o)", "dec": "parse_logfmt!(encode_logfmt!(.o))"}, {"o": o})
        for _ in range(800 if tier == "quick" else 8000):
            o = lobj({rnd.choice(good_keys): lstr(rnd.choice(K)) for _ in range(2)})
            add("kv_roundtrip", "encode_key_value/parse_key_value", {"enc": "encode_key_value!(.o)", "dec": "parse_key_value!(encode_key_value!(.o))"}, {"o": o})
        for _ in range(1500 if tier == "quick" else 15000):
            a = larr([lstr(rnd.choice(K + [""])) for _ in range(rnd.randint(1, 3))])
            add("csv_roundtrip", "encode_csv/parse_csv", {"enc": "encode_csv!(.a)", "dec": "parse_csv!(encode_csv!(.a))"}, {"a": a})
    elif prop == "C25":
        edge = [0, 1, -1, 2, 35, 36, 255, -255, 2**31, 2**53 + 1, 2**63 - 1, -2**63, -2**63 + 1, 2**62, 10**18]
        ints = edge + [rnd.getrandbits(64) - 2**63 for _ in range(60 if tier == "quick" else 2000)]
        for b in U["BASES"] + ([] if tier == "quick" else list(range(2, 37))):
            for n in ints:
                add("format_int", f"format_int/parse_int", {"fwd": f"format_int!(.x, {b})", "back": f"parse_int!(format_int!(.x, {b}), {b})"}, {"x": lint(n), "base": b})
        for ip in ["0.0.0.0", "1.2.3.4", "255.255.255.255", "10.0.0.1", "127.0.0.1", "192.168.255.0"]:
            add("inverse", "ip_aton/ip_ntoa", {"fwd": "ip_aton!(.x)", "back": "ip_ntoa!(ip_aton!(.x))"}, {"x": lstr(ip)})
            add("inverse", "ip_pton/ip_ntop", {"fwd": "ip_pton!(.x)", "back": "ip_ntop!(ip_pton!(.x))"}, {"x": lstr(ip)})
            add("inverse", "ip_to_ipv6/ipv6_to_ipv4", {"fwd": "ip_to_ipv6!(.x)", "back": "ipv6_to_ipv4!(ip_to_ipv6!(.x))"}, {"x": lstr(ip)})
        for ip in ["::", "::1", "2001:db8::1", "ffff:ffff:ffff:ffff:ffff:ffff:ffff:ffff", "fe80::1:2:3:4", "1:2:3:4:5:6:7:8"]:
            add("inverse", "ip_pton/ip_ntop", {"fwd": "ip_pton!(.x)", "back": "ip_ntop!(ip_pton!(.x))"}, {"x": lstr(ip)})
        for n in [0, 1, 4294967295, 16909060, 2130706433] + [rnd.getrandbits(32) for _ in range(40)]:
            add("inverse", "ip_ntoa/ip_aton", {"fwd": "ip_ntoa!(.x)", "back": "ip_aton!(ip_ntoa!(.x))"}, {"x": lint(n)})
        keys = ["a", "b", "c d", "é"]
        leaves = [lint(1), lstr("x"), {"t": "null"}, {"t": "bool", "v": True}]
        def nested(depth):
            if depth == 0 or rnd.random() < 0.3:
                return rnd.choice(leaves)
            return lobj({k: nested(depth - 1) for k in rnd.sample(keys, rnd.randint(1, 3))})
        for _ in range(400 if tier == "quick" else 5000):
            o = lobj({k: nested(2) for k in rnd.sample(keys, rnd.randint(1, 3))})
            add("inverse_obj", "flatten/unflatten", {"fwd": "flatten!(.x)", "back": "unflatten!(flatten!(.x))"}, {"x": o})
            add("inverse_obj", "to_entries/from_entries", {"fwd": "to_entries!(.x)", "back": "from_entries!(to_entries!(.x))"}, {"x": o})
        stamps = [t.replace("Z", ".000000000Z") for t in ["1970-01-01T00:00:00Z", "2021-02-03T04:05:06Z", "1969-12-31T23:59:59Z", "2038-01-19T03:14:08Z",
                                                          "2262-04-11T23:47:16Z", "1677-09-21T00:12:44Z"]]
        for ts in stamps:
            for unit in ["seconds", "milliseconds", "microseconds", "nanoseconds"]:
                add("inverse", f"to_unix_timestamp/from_unix_timestamp({unit})",
                    {"fwd": f"to_unix_timestamp!(.x, unit: \"{unit}\")", "back": f"from_unix_timestamp!(to_unix_timestamp!(.x, unit: \"{unit}\"), unit: \"{unit}\")"},
                    {"x": {"t": "ts", "s": ts}})
        # the other direction is lossless for every unit and every count, before and after the epoch, whole seconds or not
        per = {"seconds": 1, "milliseconds": 10**3, "microseconds": 10**6, "nanoseconds": 10**9}
        for unit, k in per.items():
            counts = [0, 1, -1, k, -k, k + 1, -k - 1, -k + 1, k // 2, -(k // 2), -(k // 2) - k, 3 * k + k // 4, -3 * k - k // 4, 1600000000 * k + 123 % k, -1600000000 * k - 123 % k]
            counts += [rnd.randint(-2 * 10**9, 2 * 10**9) * k // rnd.choice([1, 7, 1000]) for _ in range(40 if tier == "quick" else 1500)]
            counts += [rnd.randint(-5 * k, 5 * k) for _ in range(40 if tier == "quick" else 1500)]
            for n in counts:
                add("inverse", f"from_unix_timestamp/to_unix_timestamp({unit})",
                    {"fwd": f"from_unix_timestamp!(.x, unit: \"{unit}\")", "back": f"to_unix_timestamp!(from_unix_timestamp!(.x, unit: \"{unit}\"), unit: \"{unit}\")"},
                    {"x": lint(n)})
        for ts in stamps:
            for fmt in ["%+", "%Y-%m-%dT%H:%M:%S%.f%:z", "%s", "%Y-%m-%d %H:%M:%S %z"]:
                add("inverse", f"format_timestamp/parse_timestamp({fmt})",
                    {"fwd": f"format_timestamp!(.x, \"{fmt}\")", "back": f"parse_timestamp!(format_timestamp!(.x, \"{fmt}\"), \"{fmt}\")"},
                    {"x": {"t": "ts", "s": ts}})
    elif prop == "C22":
        BA = U["BYTE_ALPHABET"]
        TA = U["TEXT_ALPHABET"]
        def lbytes(bs):
            return {"t": "bytes", "c": list(bs)}
        def shape_b(bs):
            return "empty" if not bs else ("len%3=" + str(len(bs) % 3))
        # byte strings: every string over the alphabet up to length 2 (thorough 3) + seeded longer / repetitive / random ones
        B = [()] + [t for k in range(1, (3 if tier == "quick" else 4)) for t in itertools.product(BA, repeat=k)]
        if tier == "quick":
            B = [b for b in B if len(b) <= 2] + rnd.sample([b for b in B if len(b) == 3], 600) if len(B) > 2000 else B
        longer = [tuple(rnd.choice(BA) for _ in range(rnd.randint(4, 40))) for _ in range(150 if tier == "quick" else 1500)]
        longer += [tuple(rnd.getrandbits(8) for _ in range(rnd.randint(1, 300))) for _ in range(100 if tier == "quick" else 1000)]
        longer += [tuple([rnd.choice(BA)] * rnd.randint(50, 5000)) for _ in range(10 if tier == "quick" else 60)]
        longer += [tuple(rnd.getrandbits(8) for _ in range(n)) for n in (255, 256, 257, 65535, 65536, 70000)]
        def codec(fn, enc, dec, x, shape, total=True, model="none", **kw):
            inp = {"x": x, "total": total, "model": model, "shape": shape}
            inp.update(kw)
            add("codec", fn, {"enc": enc, "dec": dec}, inp)
        for bs in B + longer:
            x = lbytes(bs)
            small = len(bs) <= 64
            sh = shape_b(bs)
            if small:
                codec("encode_base16/decode_base16", "encode_base16!(.x)", "decode_base16!(encode_base16!(.x))", x, sh, model="base16")
                for cs, url in (("standard", False), ("url_safe", True)):
                    for pad in (True, False):
                        e = f'encode_base64!(.x, padding: {str(pad).lower()}, charset: "{cs}")'
                        codec(f"encode_base64/decode_base64({cs},{'pad' if pad else 'nopad'})", e, f'decode_base64!({e}, charset: "{cs}")', x, sh,
                              model="base64", urlsafe=url, pad=pad)
            if small or rnd.random() < 0.5:
                zs = [("gzip", ""), ("zlib", ""), ("zstd", ""), ("snappy", "")]
                if len(bs) <= 3 or rnd.random() < 0.3:
                    zs += [("gzip", ", compression_level: 0"), ("gzip", ", compression_level: 9"), ("zlib", ", compression_level: 0"),
                           ("zlib", ", compression_level: 9"), ("zstd", ", compression_level: 1"), ("zstd", ", compression_level: 7")]
                for z, opt in zs:
                    codec(f"encode_{z}/decode_{z}{opt.replace(', compression_level: ', '@')}", f"encode_{z}!(.x{opt})", f"decode_{z}!(encode_{z}!(.x{opt}))", x, sh)
                for pre in (True, False):
                    e = f"encode_lz4!(.x, prepend_size: {str(pre).lower()})"
                    codec(f"encode_lz4/decode_lz4({'prepended' if pre else 'block'})", e, f"decode_lz4!({e}, prepended_size: {str(pre).lower()})", x, sh)
        # text: percent (every set), punycode (labels), charsets
        T = [""] + ["".join(chr(c) for c in t) for k in range(1, 3) for t in itertools.product(TA, repeat=k)]
        T += ["%41", "100%25", "%zz", "%4", "a%2Fb", "%C3%A9", "%e9", "%%41"]
        T += ["".join(chr(rnd.choice(TA)) for _ in range(rnd.randint(3, 12))) for _ in range(200 if tier == "quick" else 3000)]
        for t in T:
            x = lstr(t)
            sh = ("percent-hex-hex" if re.search("%[0-9a-fA-F]{2}", t) else "has-percent" if "%" in t else "no-percent") + ("+non-ascii" if any(ord(c) > 127 for c in t) else "")
            for aset in U["PERCENT_SETS"]:
                e = f'encode_percent!(.x, ascii_set: "{aset}")'
                codec(f"encode_percent/decode_percent({aset})", e, f"decode_percent!({e})", x, sh, model="percent_nonalnum" if aset == "NON_ALPHANUMERIC" else "percent")
        labels = ["a", "abc", "a-b", "münchen", "bücher", "例え", "пример", "straße", "ü", "éa", "aé", "a1", "xn", "日本語", "mañana", "façade", "a" * 30 + "é",
                  "ß", "ı", "ς", "Ünïcödé".lower()]
        labels += ["".join(rnd.choice("abcxyz019-éüñßяж中日") for _ in range(rnd.randint(1, 12))).strip("-") or "a" for _ in range(100 if tier == "quick" else 1500)]
        for lab in labels:
            for dom in (lab, lab + ".com", "www." + lab + ".example"):
                sh = "label" + ("+non-ascii" if any(ord(c) > 127 for c in dom) else "")
                codec("encode_punycode/decode_punycode", "encode_punycode!(.x)", "decode_punycode!(encode_punycode!(.x))", lstr(dom), sh, total=False)
                codec("encode_punycode/decode_punycode(validate:false)", "encode_punycode!(.x, validate: false)", "decode_punycode!(encode_punycode!(.x, validate: false), validate: false)",
                      lstr(dom), sh, total=False)
        charsets = {"utf-8": "aé€😀я中", "utf-16le": None, "iso-8859-1": "aé ÿÀ~", "windows-1252": "aé€ÿ‚", "windows-1251": "aяЖё№", "koi8-r": "aяЖ",
                    "shift_jis": "aあア日本", "euc-kr": "a한국", "gbk": "a中文", "big5": "a中文", "iso-8859-15": "a€é", "euc-jp": "aあ日本"}
        for cset, alpha in charsets.items():
            if alpha is None:
                continue
            texts = [""] + ["".join(t) for k in range(1, 3) for t in itertools.product(alpha, repeat=k)]
            texts += ["".join(rnd.choice(alpha) for _ in range(rnd.randint(3, 20))) for _ in range(20 if tier == "quick" else 300)]
            for t in texts:
                codec(f"encode_charset/decode_charset({cset})", f'encode_charset!(.x, "{cset}")', f'decode_charset!(encode_charset!(.x, "{cset}"), "{cset}")', lstr(t),
                      "representable", total=True)
    elif prop == "C23":
        BA = U["BYTE_ALPHABET"]
        def lbytes(bs):
            return {"t": "bytes", "c": list(bs)}
        def rb(n):
            return tuple(rnd.getrandbits(8) for _ in range(n))
        plains = [(), (0,), (97,), (128,), (255,)] + [rb(n) for n in (2, 15, 16, 17, 31, 32, 33, 47, 48, 64, 100, 255, 256, 1000)]
        # plaintexts that end like padding (0x80 00.., 01, 02 02, 00 00 03, 10x16)
        plains += [(65, 128), (65, 128, 0, 0), (65, 1), (65, 2, 2), (65, 0, 0, 3), tuple([16] * 16), tuple([0] * 16), tuple([65] * 15 + [1]), tuple([65] * 14 + [128, 0])]
        plains += [tuple(rnd.choice(BA) for _ in range(rnd.randint(1, 40))) for _ in range(10 if tier == "quick" else 200)]
        nkeys = 2 if tier == "quick" else 6
        def shaped(n, shape):
            if shape == "zeros":
                return tuple([0] * n)
            if shape == "ones":
                return tuple([255] * n)
            b = list(rb(n))
            if shape == "low8-ones":
                b[-8:] = [255] * min(8, n)
            elif shape == "low4-ones":
                b[-4:] = [255] * min(4, n)
            elif shape == "last-byte-fe":
                b[-1] = 254
            elif shape == "low8-ones-but-last-fe":
                b[-8:] = [255] * min(8, n)
                b[-1] = 254
            elif shape == "high8-ones":
                b[:8] = [255] * min(8, n)
            elif shape == "low-half-ones-high-half-random":
                b[n // 2:] = [255] * (n - n // 2)
            return tuple(b)
        long_plains = [rb(n) for n in (17, 33, 48, 65, 100)]
        for alg, (klen, ivlen) in sorted(U["CIPHERS"].items()):
            for ivs in U["IV_SHAPES"]:
                for ks in (U["KEY_SHAPES"] if ivs in ("random", "ones") else ["random"]):
                    if ivs == "random" and ks == "random":
                        continue
                    for ptx in long_plains:
                        add("cipher", f"encrypt/decrypt({alg})", {"enc": f'encrypt!(.x, "{alg}", key: .key, iv: .iv)', "dec": f'decrypt!(encrypt!(.x, "{alg}", key: .key, iv: .iv), "{alg}", key: .key, iv: .iv)'},
                            {"x": lbytes(ptx), "key": lbytes(shaped(klen, ks)), "iv": lbytes(shaped(ivlen, ivs)), "documented": True, "shape": f"iv:{ivs}/key:{ks}"})
        for alg, (klen, ivlen) in sorted(U["CIPHERS"].items()):
            variants = [alg] + ([alg.lower()] if tier != "quick" or alg.endswith("CFB") else [])
            for a in variants:
                for _ in range(nkeys):
                    key, iv = rb(klen), rb(ivlen)
                    for ptx in plains:
                        add("cipher", f"encrypt/decrypt({alg})", {"enc": f'encrypt!(.x, "{a}", key: .key, iv: .iv)', "dec": f'decrypt!(encrypt!(.x, "{a}", key: .key, iv: .iv), "{a}", key: .key, iv: .iv)'},
                            {"x": lbytes(ptx), "key": lbytes(key), "iv": lbytes(iv), "documented": True, "shape": "empty" if not ptx else ("block-multiple" if len(ptx) % 16 == 0 else "partial-block")})
                # wrong sizes must not be accepted silently as a different cipher: whatever encrypts must decrypt back
                for kl, il in ((klen - 1, ivlen), (klen, ivlen + 1), (klen + 8, ivlen)):
                    add("cipher", f"encrypt/decrypt({alg})", {"enc": f'encrypt!(.x, "{a}", key: .key, iv: .iv)', "dec": f'decrypt!(encrypt!(.x, "{a}", key: .key, iv: .iv), "{a}", key: .key, iv: .iv)'},
                        {"x": lbytes(rb(20)), "key": lbytes(rb(kl)), "iv": lbytes(rb(il)), "documented": False, "shape": "undocumented-sizes"})
        import ipaddress
        v4 = ["0.0.0.0", "255.255.255.255", "127.0.0.1", "10.0.0.1", "192.168.1.1", "1.2.3.4", "224.0.0.1", "169.254.0.1"]
        v4 += [str(ipaddress.IPv4Address(rnd.getrandbits(32))) for _ in range(150 if tier == "quick" else 3000)]
        v6 = ["::", "::1", "2001:db8::1", "ffff:ffff:ffff:ffff:ffff:ffff:ffff:ffff", "fe80::1", "::ffff:1.2.3.4", "64:ff9b::1.2.3.4", "1:2:3:4:5:6:7:8", "2001:db8:0:0:1::1", "::ffff:0:0"]
        v6 += [str(ipaddress.IPv6Address(rnd.getrandbits(128))) for _ in range(150 if tier == "quick" else 3000)]
        v6 += [str(ipaddress.IPv6Address(rnd.getrandbits(32))) for _ in range(20)] + [str(ipaddress.IPv6Address((0xffff << 32) | rnd.getrandbits(32))) for _ in range(20)]
        for mode, klen in sorted(U["IP_MODES"].items()):
            keys = [rb(klen) for _ in range(3 if tier == "quick" else 10)]
            for ip in v4 + v6:
                key = rnd.choice(keys)
                add("ip_cipher", f"encrypt_ip/decrypt_ip({mode})",
                    {"orig": "ip_pton!(.x)", "enc": f'encrypt_ip!(.x, .key, "{mode}")', "back": f'ip_pton!(decrypt_ip!(encrypt_ip!(.x, .key, "{mode}"), .key, "{mode}"))'},
                    {"x": lstr(ip), "key": lbytes(key), "documented": True, "shape": ("v4-mapped-v6" if ipaddress.ip_address(ip).version == 6 and ipaddress.IPv6Address(ip).ipv4_mapped is not None else "v6") if ":" in ip else "v4"})
    elif prop == "C21":
        JA = U["JSON_ALPHABET"]
        import struct
        def lfloat(f):
            bits = struct.unpack(">Q", struct.pack(">d", f))[0]
            return {"t": "float", "b": [(bits >> 48) & 0xffff, (bits >> 32) & 0xffff, (bits >> 16) & 0xffff, bits & 0xffff]}
        def rfloat():
            while True:
                bits = rnd.getrandbits(64)
                if (bits >> 52) & 0x7ff != 0x7ff:
                    return struct.unpack(">d", struct.pack(">Q", bits))[0]
        strs = [""] + [chr(c) for c in JA] + ["".join(chr(c) for c in t) for t in itertools.product(JA, repeat=2)]
        strs += ["".join(chr(rnd.choice(JA)) for _ in range(rnd.randint(3, 10))) for _ in range(100 if tier == "quick" else 2000)]
        floats = [0.0, -0.0, 1.0, -1.0, 0.1, 0.2, 0.3, 1e23, 1e22, 5e-324, 2.2250738585072014e-308, 2.225073858507201e-308, 1.7976931348623157e308, -1.7976931348623157e308,
                  9007199254740992.0, 9007199254740993.0, 1e15, 1e16, 1e17, 123456789012345680.0, 0.000001, 1e-7, 1.5, 2.5e-5, 4.35, 8.41e21, 7.3177701707893310e15,
                  2.0**63, -(2.0**63), 2.0**64, 1e300, 1e-300, 3.141592653589793, 2.718281828459045, 1e21, 1e20, 123456.789e3]
        floats += [rfloat() for _ in range(600 if tier == "quick" else 20000)]
        floats += [float(rnd.randint(-10**6, 10**6)) / 10 ** rnd.randint(0, 6) for _ in range(300 if tier == "quick" else 5000)]
        ints = [0, 1, -1, 2**31, -2**31, 2**53, 2**53 + 1, 2**63 - 1, -2**63, 10**18, -10**18] + [rnd.getrandbits(64) - 2**63 for _ in range(100 if tier == "quick" else 2000)]
        def jadd(x, shape):
            add("json_roundtrip", "encode_json/parse_json", {"compact": "parse_json!(encode_json(.x))", "pretty": "parse_json!(encode_json(.x, pretty: true))", "serde": "@serde x"},
                {"x": x, "shape": shape})
        for s_ in strs:
            jadd(lstr(s_), "string")
        for f in floats:
            jadd(lfloat(f), "float")
        for n in ints:
            jadd(lint(n), "integer")
        for v in ({"t": "null"}, {"t": "bool", "v": True}, {"t": "bool", "v": False}, larr([]), lobj({})):
            jadd(v, "scalar")
        def leaf():
            k = rnd.randint(0, 5)
            return [lambda: lstr(rnd.choice(strs)), lambda: lfloat(rnd.choice(floats)), lambda: lint(rnd.choice(ints)), lambda: {"t": "null"},
                    lambda: {"t": "bool", "v": rnd.random() < 0.5}, lambda: lstr(rnd.choice(strs[:60]))][k]()
        def tree(d):
            k = rnd.random()
            if d == 0 or k < 0.4:
                return leaf()
            if k < 0.7:
                return larr([tree(d - 1) for _ in range(rnd.randint(0, 3))])
            return lobj({rnd.choice(strs[:400]): tree(d - 1) for _ in range(rnd.randint(0, 3))})
        for _ in range(600 if tier == "quick" else 10000):
            jadd(tree(3), "nested")
        for d in (10, 25):
            x = lint(1)
            for _ in range(d):
                x = larr([x])
            jadd(x, f"deep-array-{d}")
    elif prop == "C35":
        import struct
        CU, _, _ = universes("GenCalendar.tla", os.path.join(WORK, f"{prop}_{tier}" + ("_alt" if os.environ.get("VERIF_REPO", "/repo") != "/repo" else "")),
                             ["DATES", "TIMES", "OFFSETS", "FRACS", "FIXEDZONES", "DSTZONES"])
        fixed = CU["FIXEDZONES"]
        all_tz = sorted(fixed) + CU["DSTZONES"]
        def conv(name, text, tzs, inp):
            inp = dict(inp)
            inp["text"] = text
            inp["name"] = name
            cases.append({"worker": "conv", "f": "Conversion", "args": [], "ret": [], "src": f"conv:{name}", "law": {"name": "conv", "fn": "Conversion"},
                          "inp": inp, "name": name, "text": plain(text), "tzs": tzs})
        some_tz = ["UTC", "America/New_York", "Etc/GMT-14"]
        edge = [0, 1, -1, 7, 10, -10, 2**31, -2**31, 2**53 + 1, 2**63 - 1, -2**63, 10**18, -10**18 + 1]
        for n in edge + [rnd.getrandbits(64) - 2**63 for _ in range(150 if tier == "quick" else 5000)] + [rnd.randint(-10**6, 10**6) for _ in range(50)]:
            for name in ("int", "integer"):
                conv(name, lstr(str(n)), some_tz, {"kind": "int", "x": lint(n), "shape": "integer"})
        words = {"true": ["true", "t", "yes", "y"], "false": ["false", "f", "no", "n"]}
        def casings(w):
            return {w, w.upper(), w.capitalize(), "".join(ch.upper() if k % 2 else ch for k, ch in enumerate(w))}
        for exp, ws in words.items():
            for w in ws:
                for form in sorted(casings(w)):
                    for name in ("bool", "boolean"):
                        conv(name, lstr(form), some_tz, {"kind": "bool", "expect": exp, "numeric": False, "shape": "boolean-word"})
        for t, exp in (("0", "false"), ("1", "true"), ("-1", "true"), ("42", "true"), ("00", "false"), ("-0", "false"), ("9223372036854775807", "true")):
            for name in ("bool", "boolean"):
                conv(name, lstr(t), some_tz, {"kind": "bool", "expect": exp, "numeric": True, "shape": "boolean-number"})
        def lfloat(f):
            bits = struct.unpack(">Q", struct.pack(">d", f))[0]
            return {"t": "float", "b": [(bits >> 48) & 0xffff, (bits >> 32) & 0xffff, (bits >> 16) & 0xffff, bits & 0xffff]}
        floats = [0.0, -0.0, 1.0, -1.5, 0.1, 1e22, 1e23, 5e-324, 2.2250738585072014e-308, 1.7976931348623157e308, 9007199254740993.0, 123456.789, 1e-7, 3.141592653589793]
        while len(floats) < (300 if tier == "quick" else 20000):
            bits = rnd.getrandbits(64)
            if (bits >> 52) & 0x7ff != 0x7ff:
                floats.append(struct.unpack(">d", struct.pack(">Q", bits))[0])
        for f in floats:
            conv("float", lstr(repr(f)), some_tz, {"kind": "float", "x": lfloat(f), "shape": "float"})
        for t in ["", "a", "é😀", " x ", "1", "true"]:
            for name in ("asis", "bytes", "string"):
                conv(name, lstr(t), some_tz, {"kind": "bytes", "shape": "bytes"})
        for name in ("integers", "Int", "", "timestamp|", "number", "str"):
            if name != "timestamp|":
                conv(name, lstr("1"), ["UTC"], {"kind": "unknown", "shape": "unknown-name"})
        # timestamps: text rendered here AND by Calendar!Render (the law compares them), instant computed by Calendar!ToUtc
        MON = ["Jan", "Feb", "Mar", "Apr", "May", "Jun", "Jul", "Aug", "Sep", "Oct", "Nov", "Dec"]
        def off_colon(o):
            return ("-" if o < 0 else "+") + f"{abs(o) // 60:02d}:{abs(o) % 60:02d}"
        def off_plain(o):
            return ("-" if o < 0 else "+") + f"{abs(o) // 60:02d}{abs(o) % 60:02d}"
        def render(fmt, c, off, fr):
            d = f"{c['y']:04d}-{c['mo']:02d}-{c['d']:02d}"
            t = f"{c['h']:02d}:{c['mi']:02d}:{c['s']:02d}"
            frs = ("." + "".join(str(x) for x in fr)) if fr else ""
            return {"rfc3339": f"{d}T{t}{frs}{off_colon(off)}", "rfc3339z": f"{d}T{t}{frs}Z", "iso_colon": f"{d}T{t}{off_colon(off)}", "space_z": f"{d} {t} {off_plain(off)}",
                    "clf": f"{c['d']:02d}/{MON[c['mo'] - 1]}/{c['y']:04d}:{t} {off_plain(off)}", "naive": f"{d} {t}", "naive_t": f"{d}T{t}"}[fmt]
        NAMES = {"rfc3339": ["timestamp", "timestamp|%+"], "rfc3339z": ["timestamp", "timestamp|%+"], "iso_colon": ["timestamp|%Y-%m-%dT%H:%M:%S%:z", "timestamp"],
                 "space_z": ["timestamp|%Y-%m-%d %H:%M:%S %z"], "clf": ["timestamp|%d/%b/%Y:%T %z", "timestamp"],
                 "naive": ["timestamp|%Y-%m-%d %H:%M:%S", "timestamp", "timestamp|%F %T"], "naive_t": ["timestamp|%FT%T", "timestamp"]}
        ts_cases = []
        for (y, mo, d) in CU["DATES"]:
            for (h, mi, sec) in CU["TIMES"]:
                c = {"y": y, "mo": mo, "d": d, "h": h, "mi": mi, "s": sec}
                for fmt, names in NAMES.items():
                    zoned = fmt not in ("naive", "naive_t")
                    offs = [0] if fmt == "rfc3339z" or not zoned else CU["OFFSETS"]
                    frs = CU["FRACS"] if fmt in ("rfc3339", "rfc3339z") else [[]]
                    for off in offs:
                        for fr in frs:
                            for name in names:
                                ts_cases.append((name, fmt, c, off, fr, zoned))
        if tier == "quick":
            ts_cases = rnd.sample(ts_cases, 2500)
        for name, fmt, c, off, fr, zoned in ts_cases:
            text = render(fmt, c, off, fr)
            conv(name, lstr(text), all_tz if zoned else sorted(fixed), {"kind": "ts", "fmt": fmt, "c": c, "off": off, "fr": fr, "zoned": zoned, "zones": fixed,
                 "shape": ("zoned:" if zoned else "naive:") + fmt + (":auto" if name == "timestamp" else "")})
    elif prop == "C29":
        import struct, math
        def lfloat(f):
            bits = struct.unpack(">Q", struct.pack(">d", f))[0]
            return {"t": "float", "b": [(bits >> 48) & 0xffff, (bits >> 32) & 0xffff, (bits >> 16) & 0xffff, bits & 0xffff]}
        def rdouble(maxexp=1023, minexp=-1022):
            while True:
                bits = rnd.getrandbits(64)
                e = ((bits >> 52) & 0x7ff) - 1023
                if minexp <= e <= maxexp:
                    return struct.unpack(">d", struct.pack(">Q", bits))[0]
        def num(kind, fn, exprs, inp, shape):
            inp = dict(inp, kind=kind, shape=shape)
            add("numeric", fn, exprs, inp)
        N = 1 if tier == "quick" else 12
        edge = [0, 1, -1, 2, -2, 7, -7, 10, 100, 2**31, -2**31, 2**53, 2**53 + 1, -2**53 - 1, 2**63 - 1, -2**63, -2**63 + 1, 10**18]
        ints = edge + [rnd.getrandbits(64) - 2**63 for _ in range(100 * N)] + [rnd.randint(-1000, 1000) for _ in range(60 * N)]
        fedge = [0.0, -0.0, 0.5, -0.5, 1.5, 2.5, -2.5, 0.1, 0.7, 1e15 + 0.5, 4503599627370495.5, 4503599627370496.0, 9007199254740992.0, 1e300, -1e300, 5e-324, 2.2250738585072014e-308,
                 1.7976931348623157e308, -1.7976931348623157e308, 0.49999999999999994, 0.9999999999999999, -0.9999999999999999]
        for n in ints:
            num("abs_int", "abs", {"out": "abs!(.x)"}, {"x": lint(n)}, "integer" if n != -2**63 else "minimum-integer")
            for p in (0, 1, 3, -2):
                num("round_int", "round/ceil/floor", {"round": f"round!(.x, precision: {p})", "ceil": f"ceil!(.x, precision: {p})", "floor": f"floor!(.x, precision: {p})"},
                    {"x": lint(n), "p": p}, "integer")
        floats = fedge + [rdouble() for _ in range(150 * N)] + [rdouble(60, -30) for _ in range(300 * N)] + [rnd.randint(-10**7, 10**7) / 10 ** rnd.randint(0, 7) for _ in range(300 * N)]
        for f in floats:
            num("abs_float", "abs", {"out": "abs!(.x)"}, {"x": lfloat(f)}, "float")
            num("round_f0", "round/ceil/floor", {"round": "round!(.x)", "ceil": "ceil!(.x)", "floor": "floor!(.x)", "width": "ceil!(.x) - floor!(.x)",
                                                 "near": "abs(round!(.x) - float!(.x)) <= 0.5"}, {"x": lfloat(f)},
                "precision-0" + (":beyond-2^52" if abs(f) >= 2.0**52 else ""))
            for p in ((1, 2, 3, 6) if tier == "quick" else (1, 2, 3, 4, 5, 6, 9, 12)):
                scaled = abs(f) * 10.0**p
                shape = "overflowing-scale" if math.isinf(scaled) else "inexact-scale" if scaled >= 2.0**53 else "plain"
                num("round_fp", "round/ceil/floor", {"round": f"round!(.x, precision: {p})", "ceil": f"ceil!(.x, precision: {p})", "floor": f"floor!(.x, precision: {p})",
                        "tol_ceil": f"abs(ceil!(.x, precision: {p}) - float!(.x)) <= float!(.tol)", "tol_floor": f"abs(floor!(.x, precision: {p}) - float!(.x)) <= float!(.tol)",
                        "tol_round": f"abs(round!(.x, precision: {p}) - float!(.x)) <= float!(.tol)",
                        "tol2_ceil": f"abs(ceil!(.x, precision: {p}) - float!(.x)) <= float!(.tol2)", "tol2_floor": f"abs(floor!(.x, precision: {p}) - float!(.x)) <= float!(.tol2)",
                        "tol2_round": f"abs(round!(.x, precision: {p}) - float!(.x)) <= float!(.tol2)"},
                    {"x": lfloat(f), "p": p, "tol": lfloat(10.0**-p), "tol2": lfloat(10.0**-p * (1 + 1e-9) + 4 * math.ulp(f))},
                    f"precision>0:{shape}")
        divisors = [1, -1, 2, -2, 3, -3, 7, 10, -10, 2**31, 2**63 - 1, -2**63] + [rnd.randint(-50, 50) or 1 for _ in range(10 * N)] + [rnd.getrandbits(64) - 2**63 or 1 for _ in range(10 * N)]
        for a in rnd.sample(ints, min(len(ints), 60 * N)):
            for b in divisors:
                q = abs(a) // abs(b) * (1 if (a >= 0) == (b >= 0) else -1)
                num("mod_int", "mod", {"out": "mod!(.a, .b)"}, {"a": lint(a), "b": lint(b), "q": lint(q)},
                    "integer" + (":minimum-by-minus-one" if a == -2**63 and b == -1 else ""))
        fdiv = [1.0, -1.0, 0.5, 3.0, -3.0, 0.1, 1e300, 5e-324, 2.5] + [rdouble(40, -40) for _ in range(10 * N)]
        for a in rnd.sample(floats, min(len(floats), 60 * N)):
            for b in fdiv:
                num("mod_float", "mod", {"out": "mod!(.a, .b)"}, {"a": lfloat(a), "b": lfloat(b)}, "float")
        for n in ints:
            num("conv_int", "to_string/parse_int/to_int/to_float", {"str": "to_string!(.x)", "parse": "parse_int!(to_string!(.x))", "toint": "to_int!(to_string!(.x))",
                    "tofloat": "to_float!(.x)", "tofloat_str": "to_float!(to_string!(.x))", "back": "to_int!(to_float!(.x))"}, {"x": lint(n), "exact": abs(n) <= 2**53}, "integer")
        for f in floats:
            integral = f == math.floor(f) and abs(f) < 2.0**63
            num("conv_float", "to_string/parse_float/to_float/to_int", {"str": "to_string!(.x)", "parse": "parse_float!(to_string!(.x))", "tofloat": "to_float!(to_string!(.x))",
                    "toint": "to_int!(.x)", "back": "to_float!(to_int!(.x))", "toint_str": "to_int!(.x)"}, {"x": lfloat(f), "integral": integral},
                "float" + (":integral" if integral else ""))
    elif prop == "C26":
        import struct
        PU, _, _ = universes("GenProto.tla", os.path.join(WORK, f"{prop}_{tier}" + ("_alt" if os.environ.get("VERIF_REPO", "/repo") != "/repo" else "")),
                             ["PROTO_SCHEMA", "PROTO_ENUMS", "PROTO_DESC"])
        schema, enums, desc = PU["PROTO_SCHEMA"], PU["PROTO_ENUMS"], PU["PROTO_DESC"]
        repo = os.environ.get("VERIF_REPO", "/repo")
        def lfloat(f):
            bits = struct.unpack(">Q", struct.pack(">d", f))[0]
            return {"t": "float", "b": [(bits >> 48) & 0xffff, (bits >> 32) & 0xffff, (bits >> 16) & 0xffff, bits & 0xffff]}
        STR = ["", "a", "é😀", "x y", "\"q\"", "0", "a" * 40]
        def scalar(f, allow_default):
            t = f["t"]
            if t == "int32":
                return lint(rnd.choice(([0] if allow_default else []) + [1, -1, 2**31 - 1, -2**31, rnd.randint(-10**6, 10**6)]))
            if t == "int64":
                return lint(rnd.choice(([0] if allow_default else []) + [1, -1, 2**63 - 1, -2**63, rnd.getrandbits(64) - 2**63]))
            if t == "uint32":
                return lint(rnd.choice(([0] if allow_default else []) + [1, 2**32 - 1, rnd.getrandbits(32)]))
            if t == "uint64":
                return lint(rnd.choice(([0] if allow_default else []) + [1, 2**63 - 1, rnd.getrandbits(63)]))
            if t == "double":
                return lfloat(rnd.choice(([0.0] if allow_default else []) + [1.5, -2.25, 1e300, 5e-324, 0.1, -0.0 if allow_default else 3.0]))
            if t == "float":
                return lfloat(rnd.choice(([0.0] if allow_default else []) + [1.5, -2.25, 0.5, 16777216.0, 3.0]))
            if t == "string":
                return lstr(rnd.choice(STR if allow_default else STR[1:]))
            if t == "bytes":
                return rnd.choice([{"t": "bytes", "c": [0, 255, 128]}, {"t": "bytes", "c": [195]}, lstr("ab")] + ([lstr("")] if allow_default else []))
            if t == "bool":
                return {"t": "bool", "v": rnd.random() < 0.5 if allow_default else True}
            if t == "enum":
                names = enums[f["of"]]
                return lstr(rnd.choice(names if allow_default else names[1:]))
            if t == "timestamp":
                return {"t": "ts", "s": rnd.choice(["2021-02-03T04:05:06.000000000Z", "1970-01-01T00:00:01.000000000Z", "2038-01-19T03:14:08.123456789Z", "1969-12-31T23:59:59.500000000Z"])}
            if t == "msg":
                return message(f["of"], 2)
            raise KeyError(t)
        def message(ty, depth):
            m = {}
            for fn, f in schema[ty].items():
                if rnd.random() < 0.25:
                    continue
                if f["card"] == "rep":
                    m[fn] = larr([scalar(f, True) for _ in range(rnd.randint(0, 3))])
                elif f["card"] == "map":
                    m[fn] = lobj({k: scalar(f, True) for k in rnd.sample(["a", "b", "é", "k 1", ""], rnd.randint(0, 3))})
                else:
                    m[fn] = scalar(f, True)
            return lobj(m)
        tops = [t for t in schema if not t.startswith("google.") and not t.endswith(".PhoneNumber") and not t.endswith(".EmbeddedMessage") and t != "test.v1.Map.Person"]
        for ty in tops:
            pkg = ty.rsplit(".", 1)[0] if ty.count(".") == 2 else ".".join(ty.split(".")[:2])
            path = os.path.join(repo, desc[pkg])
            for _ in range(60 if tier == "quick" else 1500):
                x = message(ty, 2)
                add("proto_roundtrip", f"encode_proto/parse_proto({ty})",
                    {"enc": f'encode_proto!(.x, "{path}", "{ty}")', "dec": f'parse_proto!(encode_proto!(.x, "{path}", "{ty}"), "{path}", "{ty}")'},
                    {"x": x, "type": ty, "shape": ty})
    return cases


def check_laws(prop, tier, seed):
    t0 = time.time()
    wd = workdir(f"{prop}_{tier}")
    build_harness()
    U, gst, gtr = universes("GenLaws.tla", wd, ["STR_ALPHABET", "KV_ALPHABET", "DELIMS", "BASES", "BYTE_ALPHABET", "TEXT_ALPHABET", "PERCENT_SETS",
                                                      "CIPHERS", "IP_MODES", "JSON_ALPHABET", "IV_SHAPES", "KEY_SHAPES"])
    rnd = random.Random(seed)
    cases = law_cases(prop, tier, rnd, U)
    rnd.shuffle(cases)
    log(f"[{prop}] {len(cases)} law instances ({time.time()-t0:.0f}s)")
    cpath = os.path.join(wd, "cases.ndjson")
    with open(cpath, "w") as f:
        for c in cases:
            f.write(json.dumps(c) + "\n")
    run([VH, "calls", "--cases", cpath, "--out", os.path.join(wd, "tr"), "--shards", str(NCPU), "--deadline-ms", load_scaled(10000)], cwd=wd, timeout=7200)
    traces = [os.path.join(wd, f"tr.{i}.ndjson") for i in range(NCPU)]
    agg = aggregate(validate(traces, wd, spec="FnLaws.tla", cfg=TRACE_CFG))
    cnt = agg["cnt"]
    write_json(os.path.join(wd, "findings.json"), {"viols": agg["viols"][:500]})

    def replay_writer(v):
        with open(v["_file"]) as f:
            line = f.readlines()[v["line"] - 1]
        return {"engine": "C/laws", "record": json.loads(line)}

    by_law = {}
    for c in cases:
        by_law[c["law"]["name"] + ":" + c["law"]["fn"]] = by_law.get(c["law"]["name"] + ":" + c["law"]["fn"], 0) + 1
    coverage = {
        "evaluations": cnt.get("laws", 0), "distinct_nontrivial": cnt.get(prop, 0),
        "rule": "law instances over the alphabets of GenLaws.tla (code points incl. multi-byte, Unicode whitespace, delimiters, quotes, backslash, "
                "newline): all strings up to length 2 (thorough 3) plus seeded longer ones, small arrays/objects with duplicates/empties, edge and "
                "random i64 values x bases, addresses, nested objects, instants. every instance is one evaluation of the law's expressions by the "
                "real functions; all count as non-trivial",
        "samples": [{"law": c["law"], "inp": c["inp"], "exprs": c.get("exprs", c.get("name"))} for c in cases[:3]],
        "states": gst + agg["states"], "transitions": gtr + agg["transitions"], "traces_validated_against_impl": cnt.get("laws", 0),
        "instances_per_law": by_law,
        "witnesses_for_other_properties": sorted({sig_of(v) for v in agg["viols"] if v["prop"] != prop}),
    }
    assumptions = ["code points of strings are computed by the harness (Rust chars()) and are the reference representation for the TLA+ predicates",
                   "C25 format_int is checked against an independent long-division model (FnLaws!FormatRadix); timestamps only relationally"]
    mine = [v for v in agg["viols"] if v["prop"] == prop]
    return verdict(prop, tier, seed, "model_checking" if prop == "C35" else "exploration", coverage, mine, assumptions, t0, replay_writer)


def check_tz(prop, tier, seed):
    """C36: calls that do not read the configured timezone (or are pinned by an argument / offset) agree across timezones."""
    t0 = time.time()
    wd = workdir(f"{prop}_{tier}")
    build_harness()
    U, gst, gtr = universes("GenTz.tla", wd, ["ZONES", "FORMATS", "INSTANTS", "TZARGS", "WALLCLOCKS", "TEXTOFFSETS"])
    zones, formats, instants, tzargs = U["ZONES"], U["FORMATS"], U["INSTANTS"], U["TZARGS"]
    rnd = random.Random(seed)
    cases = []

    def add(fn, expr, tzarg, pinned, event):
        cases.append({"worker": "eval", "f": fn, "args": [], "ret": [], "src": expr, "law": {"name": "tz", "fn": fn},
                      "inp": {"fn": fn, "tzarg": tzarg, "pinned": pinned, "expr": expr},
                      "event": {"t": "obj", "m": event}, "exprs": {"out": expr}, "tzs": zones})

    for ts in instants:
        ev = {"t": {"t": "ts", "s": ts}}
        for f in formats:
            fmt = f["f"]
            add("format_timestamp", f"format_timestamp!(.t, \"{fmt}\")", False, False, ev)
            for z in tzargs:
                add("format_timestamp", f"format_timestamp!(.t, \"{fmt}\", timezone: \"{z}\")", True, False, ev)
            # round trip through text: parse what a UTC rendering produced
            add("parse_timestamp", f"parse_timestamp!(format_timestamp!(.t, \"{fmt}\"), \"{fmt}\")", False, f["pinned"], ev)
            for z in tzargs:
                add("parse_timestamp", f"parse_timestamp!(format_timestamp!(.t, \"{fmt}\"), \"{fmt}\", timezone: \"{z}\")", True, f["pinned"], ev)
        for unit in ("seconds", "milliseconds", "nanoseconds"):
            add("to_unix_timestamp", f"to_unix_timestamp!(.t, unit: \"{unit}\")", False, False, ev)
            add("from_unix_timestamp", f"from_unix_timestamp!(to_unix_timestamp!(.t, unit: \"{unit}\"), unit: \"{unit}\")", False, False, ev)
        add("to_string", "to_string!(.t)", False, False, ev)
        add("encode_json", "encode_json(.t)", False, False, ev)
        add("to_int", "to_int!(.t)", False, False, ev)
        add("to_float", "to_float!(.t)", False, False, ev)
        add("encode_json", "encode_json({\"at\": .t})", False, False, ev)
        add("format_timestamp", "format_timestamp!(.t, \"%v %R\")", False, False, ev)
    # log parsers: input with / without an explicit offset
    logs = [("parse_common_log", "127.0.0.1 bob frank [10/Oct/2000:13:55:36 -0700] \\\"GET /a HTTP/1.0\\\" 200 2326", True),
            ("parse_apache_log", "127.0.0.1 bob frank [10/Oct/2000:13:55:36 +0100] \\\"GET /a HTTP/1.0\\\" 200 2326", True),
            ("parse_syslog", "<13>1 2020-03-13T20:45:38.119Z host app 1 id - msg", True),
            ("parse_syslog", "<13>Feb 13 20:07:26 host app[1]: msg", False),
            ("parse_nginx_log", "172.17.0.1 - alice [01/Apr/2021:12:02:31 +0000] \\\"POST /x HTTP/1.1\\\" 200 612 \\\"-\\\" \\\"curl\\\"", True)]
    for fn, line, pinned in logs:
        if fn == "parse_apache_log":
            expr = f"parse_apache_log!(\"{line}\", format: \"common\")"
        elif fn == "parse_nginx_log":
            expr = f"parse_nginx_log!(\"{line}\", format: \"combined\")"
        else:
            expr = f"{fn}!(\"{line}\")"
        add(fn, expr, False, pinned, {})
    # the same parsers on wall-clock readings inside the DST gaps / overlaps of the configured zones, with an explicit offset
    MON = ["Jan", "Feb", "Mar", "Apr", "May", "Jun", "Jul", "Aug", "Sep", "Oct", "Nov", "Dec"]
    for (y, mo, d, h, mi, sec) in U["WALLCLOCKS"]:
        for off in U["TEXTOFFSETS"]:
            clf = f"{d:02d}/{MON[mo - 1]}/{y:04d}:{h:02d}:{mi:02d}:{sec:02d} {off}"
            iso = f"{y:04d}-{mo:02d}-{d:02d}T{h:02d}:{mi:02d}:{sec:02d}{off[:3]}:{off[3:]}"
            add("parse_common_log", f"parse_common_log!(\"127.0.0.1 bob frank [{clf}] \\\"GET /a HTTP/1.0\\\" 200 2326\")", False, True, {})
            add("parse_apache_log", f"parse_apache_log!(\"127.0.0.1 bob frank [{clf}] \\\"GET /a HTTP/1.0\\\" 200 2326\", format: \"common\")", False, True, {})
            add("parse_apache_log", f"parse_apache_log!(\"127.0.0.1 bob frank [{clf}] \\\"GET /a HTTP/1.0\\\" 200 2326 \\\"-\\\" \\\"curl\\\"\", format: \"combined\")", False, True, {})
            add("parse_nginx_log", f"parse_nginx_log!(\"172.17.0.1 - alice [{clf}] \\\"POST /x HTTP/1.1\\\" 200 612 \\\"-\\\" \\\"curl\\\"\", format: \"combined\")", False, True, {})
            add("parse_syslog", f"parse_syslog!(\"<13>1 {iso} host app 1 id - msg\")", False, True, {})
            add("parse_timestamp", f"parse_timestamp!(\"{clf}\", \"%d/%b/%Y:%T %z\")", False, True, {})
            add("parse_common_log", f"parse_common_log!(\"127.0.0.1 bob frank [{iso}] \\\"GET /a HTTP/1.0\\\" 200 2326\", timestamp_format: \"%Y-%m-%dT%H:%M:%S%:z\")", False, True, {})
    add("get_timezone_name", "get_timezone_name!()", False, False, {})
    # programs that never touch time at all
    for expr in ["upcase(\"a\")", "1 + 2", "parse_json!(\"{\\\"a\\\": 1}\")", "to_string(1.5)", "split(\"a,b\", \",\")", "md5(\"a\")",
                 "parse_duration!(\"1s\", \"ms\")", "format_int!(255, 16)", "parse_key_value!(\"a=1 b=2\")", "is_timestamp(.t)"]:
        add(expr.split("(")[0].rstrip("!"), expr, False, False, {"t": {"t": "ts", "s": instants[0]}})
    log(f"[{prop}] {len(cases)} expressions x {len(zones)} configured timezones ({time.time()-t0:.0f}s)")
    cpath = os.path.join(wd, "cases.ndjson")
    with open(cpath, "w") as f:
        for c in cases:
            f.write(json.dumps(c) + "\n")
    run([VH, "calls", "--cases", cpath, "--out", os.path.join(wd, "tr"), "--shards", str(NCPU), "--deadline-ms", load_scaled(20000)], cwd=wd, timeout=7200)
    traces = [os.path.join(wd, f"tr.{i}.ndjson") for i in range(NCPU)]
    agg = aggregate(validate(traces, wd, spec="Tz.tla", cfg=TRACE_CFG))
    cnt = agg["cnt"]
    write_json(os.path.join(wd, "findings.json"), {"viols": agg["viols"][:200]})

    def replay_writer(v):
        with open(v["_file"]) as f:
            line = f.readlines()[v["line"] - 1]
        return {"engine": "C/tz", "record": json.loads(line)}

    coverage = {
        "evaluations": cnt.get("cases", 0) * len(zones), "distinct_nontrivial": cnt.get("insensitive_ok", 0),
        "rule": "time-related expressions (format_timestamp / parse_timestamp over 8 formats with and without explicit offsets, with and without a "
                "`timezone:` argument; unix-timestamp conversions; to_string/to_int/to_float/encode_json of timestamps; the four access-log/syslog "
                "parsers on inputs with and without an offset; get_timezone_name; expressions that do not touch time) x 10 instants incl. DST "
                "gaps/overlaps, each evaluated under 6 configured timezones (UTC, +05:30, two DST zones, +12:45/+13:45, local). non-trivial = "
                "classified insensitive by Tz.tla and at least one evaluation succeeded",
        "samples": [c["inp"] for c in cases[:3]],
        "states": gst + agg["states"], "transitions": gtr + agg["transitions"], "traces_validated_against_impl": cnt.get("cases", 0),
        "cases": cnt.get("cases", 0), "classified_sensitive": cnt.get("sensitive", 0), "classified_insensitive": cnt.get("insensitive", 0),
        "sensitive_cases_that_really_differ": cnt.get("sensitive_and_differs", 0),
    }
    assumptions = ["the set of functions that read the configured timezone (Tz!TzReaders) was established by reading the tree; a call outside it, or "
                   "pinned by a timezone argument / explicit offset, must agree across zones",
                   "`local` is whatever the sandbox's TZ is (UTC here)"]
    mine = [v for v in agg["viols"] if v["prop"] == prop]
    return verdict(prop, tier, seed, "exploration", coverage, mine, assumptions, t0, replay_writer)


def vrl_str(s):
    return '"' + s.replace("\\", "\\\\").replace('"', '\\"').replace("{", "\\{").replace("}", "\\}") + '"'


def dd_events():
    def ev(**kw):
        m = {}
        for k, v in kw.items():
            m[k] = v
        return {"t": "obj", "m": m}
    S = lambda s: {"t": "bytes", "s": s}
    I = lambda n: {"t": "int", "n": n}
    F15 = {"t": "float", "b": [16376, 0, 0, 0]}
    tags = lambda *xs: {"t": "arr", "e": [S(x) for x in xs]}
    return [ev(), ev(message=S("x")), ev(message=S("x y"), a=S("x"), tags=tags("k:v")), ev(message=S("xy"), a=S("xy"), n=I(1), tags=tags("k:w", "z")),
            ev(message=S("a:b"), a=S("x y"), n=F15, service=S("x"), host=S("h1"), status=S("error"), tags=tags("k:v w", "k:v-w")),
            ev(message=S("y"), a=I(1), b={"t": "obj", "m": {"c": I(1)}}, n=I(2), source=S("a b"), tags=tags("k")),
            ev(message=S("x*"), a=S("(x)"), n=S("1"), tags=tags("k:v", "k:vv")), ev(a={"t": "arr", "e": [S("x"), S("y")]}, n=I(3), message=S("a \" b"))]


def check_dd(prop, tier, seed):
    t0 = time.time()
    wd = workdir(f"{prop}_{tier}")
    build_harness()
    U, gst, gtr = universes("DdSearch.tla", wd, ["LEAVES", "DEPTH1", "DEPTH2", "NUMVALS", "NUMBOUNDS", "STRVALS", "STRBOUNDS", "GLOBS", "TAGS"])
    leaves, d1, d2 = U["LEAVES"], U["DEPTH1"], U["DEPTH2"]
    rnd = random.Random(seed)
    cases = []
    if prop == "C30":
        qs = leaves + d1 + d2
        if tier == "quick" and len(qs) > 12000:
            qs = leaves + rnd.sample(d1, 6000) + rnd.sample(d2, min(len(d2), 4000))
        for q in qs:
            # the circumstance that names a finding: which escape the text contains, else its outermost construct
            shape = q["shape"]
            for esc, nm in (("\\ ", "escaped-space"), ("\\:", "escaped-colon"), ("\\-", "escaped-dash"), ("\\*", "escaped-star"), ("\\(", "escaped-paren"), ("\\\"", "escaped-quote")):
                if esc in q["q"]:
                    shape = nm
                    break
            cases.append({"worker": "ddq", "f": "ddq", "args": [], "ret": [], "src": q["q"], "q": q["q"], "shape": shape})
    else:
        events = dd_events()
        pairs = [(a, b) for a in leaves for b in leaves]
        if tier == "quick":
            pairs = rnd.sample(pairs, 500)
        for a, b in pairs:
            A, B = a["q"], b["q"]
            m = lambda q: f"match_datadog_query(., {vrl_str(q)})"
            exprs = {"A": m(A), "B": m(B), "and": m(f"{A} AND {B}"), "or": m(f"{A} OR {B}"), "notA": m(f"NOT ({A})"), "negA": m(f"-({A})"),
                     "grpA": m(f"({A})"), "juxt": m(f"({A}) ({B})"), "nested": m(f"NOT (({A}) AND ({B})) OR ({B})")}
            for e in events:
                cases.append({"worker": "eval", "f": "match_datadog_query", "args": [], "ret": [], "src": f"{A} | {B}", "law": {"name": "dd_compose", "fn": "match_datadog_query"},
                              "inp": {"a": A, "b": B, "shape": a["shape"] + "/" + b["shape"]}, "event": e, "exprs": exprs})
        for f in ["@n", "@a", "k", "service"]:
            for lo, hi in [("1", "2"), ("1", "1"), ("0", "1.5"), ("a", "y"), ("x", "x"), ("*", "2"), ("1", "*")]:
                for lb, ub, incl in [("[", "]", True), ("{", "}", False)]:
                    rng = f"{f}:{lb}{lo} TO {hi}{ub}"
                    loq = "*" if lo == "*" else f"{f}:{'>=' if incl else '>'}{lo}"
                    hiq = "*" if hi == "*" else f"{f}:{'<=' if incl else '<'}{hi}"
                    m = lambda q: f"match_datadog_query(., {vrl_str(q)})"
                    for e in events:
                        cases.append({"worker": "eval", "f": "match_datadog_query", "args": [], "ret": [], "src": rng, "law": {"name": "dd_range", "fn": "match_datadog_query"},
                                      "inp": {"range": rng, "shape": ("inclusive" if incl else "exclusive") + ("-open" if "*" in (lo, hi) else "") + ":" + f},
                                      "event": e, "exprs": {"range": m(rng), "lo": m(loq), "hi": m(hiq)}})
        # leaf semantics against FnLaws!DdLeaf: abstract leaf x abstract event (both from DdSearch.tla's universes), rendered here
        import struct
        def num_text(b10, as_float=False):
            if b10 % 10 == 0 and not as_float:
                return str(b10 // 10)
            return ("-" if b10 < 0 else "") + f"{abs(b10) // 10}.{abs(b10) % 10}"
        def num_val(v):
            if v["fl"]:
                bits = struct.unpack(">Q", struct.pack(">d", v["n10"] / 10))[0]
                return {"t": "float", "b": [(bits >> 48) & 0xffff, (bits >> 32) & 0xffff, (bits >> 16) & 0xffff, bits & 0xffff]}
            return {"t": "int", "n": v["n10"] // 10}
        cps = lambda u: "".join(chr(c) for c in u)
        def qtext(u):       # escape what the query syntax treats specially inside a bare value
            return "".join(("\\" + ch) if ch in ' :"()\\' else ch for ch in cps(u))
        OPS = {"lt": "<", "le": "<=", "gt": ">", "ge": ">="}
        def leaf_case(leaf, q, absev, conc, shape):
            cases.append({"worker": "eval", "f": "match_datadog_query", "args": [], "ret": [], "src": q, "law": {"name": "dd_leaf", "fn": "match_datadog_query"},
                          "inp": {"leaf": leaf, "ev": absev, "q": q, "shape": shape}, "event": {"t": "obj", "m": conc},
                          "exprs": {"m": f"match_datadog_query(., {vrl_str(q)})"}})
        def absev(n=None, a=None, tags=()):
            return {"has_n": n is not None, "n10": n["n10"] if n else 0, "has_a": a is not None, "a": list(a) if a is not None else [], "tags": [[ord(c) for c in t] for t in tags]}
        nvals = [None] + U["NUMVALS"]
        for v in nvals:
            conc = {} if v is None else {"n": num_val(v)}
            vs = "absent" if v is None else ("float" if v["fl"] else "int")
            for b in U["NUMBOUNDS"]:
                for bf in ((False, True) if b % 10 == 0 else (False,)):
                    bs = "float-bound" if (bf or b % 10) else "int-bound"
                    for op, sym in OPS.items():
                        leaf_case({"k": "num_cmp", "op": op, "b10": b}, f"@n:{sym}{num_text(b, bf)}", absev(n=v), conc, f"num-cmp:{vs}-value/{bs}")
            for lo in U["NUMBOUNDS"]:
                for hi in U["NUMBOUNDS"]:
                    if lo <= hi and (tier != "quick" or rnd.random() < 0.5):
                        for lb, ub, incl in (("[", "]", True), ("{", "}", False)):
                            leaf_case({"k": "num_range", "incl": incl, "lo10": lo, "hi10": hi}, f"@n:{lb}{num_text(lo)} TO {num_text(hi)}{ub}", absev(n=v), conc,
                                      f"num-range:{vs}-value/" + ("float-bound" if (lo % 10 or hi % 10) else "int-bound"))
        for a in [None] + U["STRVALS"]:
            conc = {} if a is None else {"a": {"t": "bytes", "s": cps(a)}}
            for b in U["STRBOUNDS"]:
                for op, sym in OPS.items():
                    leaf_case({"k": "str_cmp", "op": op, "s": b}, f"@a:{sym}{qtext(b)}", absev(a=a), conc, "str-cmp")
                for hi in U["STRBOUNDS"]:
                    for lb, ub, incl in (("[", "]", True), ("{", "}", False)):
                        leaf_case({"k": "str_range", "incl": incl, "lo": b, "hi": hi}, f"@a:{lb}{qtext(b)} TO {qtext(hi)}{ub}", absev(a=a), conc, "str-range")
            for t in U["STRVALS"]:
                leaf_case({"k": "attr_term", "s": t}, f"@a:{qtext(t)}", absev(a=a), conc, "attr-term")
            for g in U["GLOBS"]:
                if g != [42]:
                    leaf_case({"k": "attr_glob", "s": g}, f"@a:{cps(g)}", absev(a=a), conc, "attr-wildcard")
            leaf_case({"k": "exists"}, "_exists_:@a", absev(a=a), conc, "exists")
            leaf_case({"k": "missing"}, "_missing_:@a", absev(a=a), conc, "missing")
        for tags in U["TAGS"]:
            conc = {"tags": {"t": "arr", "e": [{"t": "bytes", "s": t} for t in tags]}}
            for key in ("k", "j"):
                for val in ("v", "w", "vv"):
                    leaf_case({"k": "tag_term", "key": [ord(c) for c in key], "s": [ord(c) for c in val]}, f"{key}:{val}", absev(tags=tags), conc, "tag-term")
                for g in ("v*", "*v", "*"):
                    leaf_case({"k": "tag_glob", "key": [ord(c) for c in key], "s": [ord(c) for c in g]}, f"{key}:{g}", absev(tags=tags), conc, "tag-wildcard")
    rnd.shuffle(cases)
    log(f"[{prop}] {len(cases)} cases ({time.time()-t0:.0f}s)")
    cpath = os.path.join(wd, "cases.ndjson")
    with open(cpath, "w") as f:
        for c in cases:
            f.write(json.dumps(c) + "\n")
    run([VH, "calls", "--cases", cpath, "--out", os.path.join(wd, "tr"), "--shards", str(NCPU), "--deadline-ms", load_scaled(20000)], cwd=wd, timeout=7200)
    traces = [os.path.join(wd, f"tr.{i}.ndjson") for i in range(NCPU)]
    agg = aggregate(validate(traces, wd, spec="FnLaws.tla", cfg=TRACE_CFG))
    cnt = agg["cnt"]
    write_json(os.path.join(wd, "findings.json"), {"viols": agg["viols"][:500]})

    def replay_writer(v):
        with open(v["_file"]) as f:
            line = f.readlines()[v["line"] - 1]
        return {"engine": "C/dd", "record": json.loads(line)}

    level = "exploration" if prop == "C30" else "model_checking"
    coverage = {
        "evaluations": cnt.get("laws", 0), "distinct_nontrivial": cnt.get(prop, 0),
        "rule": ("query texts generated by DdSearch.tla from the search grammar: 46 leaves (terms, phrases, prefix/infix wildcards, attributes, tags, reserved "
                 "fields, comparisons, inclusive/exclusive/open ranges, existence, escapes, negations), all AND/OR/juxtaposition/group/negated-group "
                 "combinations of two leaves, and two levels of nesting over representatives" if prop == "C30" else
                 "pairs of leaf queries of DdSearch.tla x 8 events over the vocabulary {message, @a, @b.c, @n, tags k, service, host, status, source} "
                 "(strings, numbers, arrays, absent): the real results for A, B, A AND B, A OR B, NOT (A), -(A), (A), (A) (B), NOT ((A) AND (B)) OR (B), "
                 "and ranges vs their two bounds on attribute, tag and reserved fields") + "; every instance counts",
        "samples": [{"src": c["src"]} for c in cases[:3]],
        "states": gst + agg["states"], "transitions": gtr + agg["transitions"], "traces_validated_against_impl": cnt.get("laws", 0),
        "leaves": len(leaves), "depth1_texts": len(d1), "depth2_texts": len(d2),
    }
    assumptions = ["C31: leaf semantics are taken from the real matcher; the compositional identities are what TLC checks (ranges only on one concrete "
                   "field - an unqualified term expands to several default fields, where any_f(lo and hi) is not any_f(lo) and any_f(hi))",
                   "trees are compared through QueryNode's PartialEq and Debug rendering"]
    mine = [v for v in agg["viols"] if v["prop"] == prop]
    return verdict(prop, tier, seed, level, coverage, mine, assumptions, t0, replay_writer)


def check_grok(prop, tier, seed):
    t0 = time.time()
    wd = workdir(f"{prop}_{tier}")
    build_harness()
    cfg = f'SPECIFICATION Spec\nCONSTANT Tier = "{tier}"\nCHECK_DEADLOCK FALSE\n'
    out = tlc("Grok.tla", cfg, wd, workers=4, name="Gen_Grok", timeout=1800)
    cyc, lits, caps = printed(out, "CYC"), printed(out, "LITS"), printed(out, "CAPS")
    if not (cyc and lits and caps):
        raise ToolError("Grok.tla did not print its cases:\n" + out[-2000:])
    cyc, lits, caps = cyc[0], lits[0], caps[0]
    gst, gtr = tlc_stats(out)
    rnd = random.Random(seed)
    cases = []

    def add(inp, rule, aliases, text):
        al = ""
        if aliases:
            al = ", aliases: { " + ", ".join(f"{vrl_str(k)}: {vrl_str(v)}" for k, v in sorted(aliases.items())) + " }"
        expr = f"parse_groks!(.s, patterns: [{vrl_str(rule)}]{al})"
        cases.append({"worker": "eval", "f": "parse_groks", "args": [], "ret": [], "src": expr, "law": {"name": "grok", "fn": "parse_groks"},
                      "inp": inp, "event": {"t": "obj", "m": {"s": {"t": "bytes", "s": text}}}, "exprs": {"out": expr}})

    for c in cyc:
        add({"kind": "cyc", "shape": "alias-cycle" if c["cyclic"] else "alias-dag", "cyclic": c["cyclic"], "rule": c["rule"], "aliases": c["aliases"]},
            c["rule"], c["aliases"], c["input"])
    texts = [l["text"] for l in lits]
    for l in lits:
        add({"kind": "lit", "shape": "literal", "rule": l["rule"], "input": l["text"]}, l["rule"], None, l["text"])
        for other in rnd.sample(texts, 6 if tier == "quick" else 30):
            if other != l["text"]:
                add({"kind": "nomatch", "shape": "literal", "rule": l["rule"], "input": other}, l["rule"], None, other)
    if tier == "quick":
        pos = [c for c in caps if c["expect_match"]]
        neg = [c for c in caps if not c["expect_match"]]
        caps = rnd.sample(pos, min(len(pos), 2500)) + rnd.sample(neg, 2500)
    for c in caps:
        caps_law = {k: ({"t": "bytes", "s": v["s"], "u": [ord(ch) for ch in v["s"]]} if v["t"] == "bytes" else
                        {"t": "int", "n": v["n"], "w": [(v["n"] % 2**64 >> s) & 0xffff for s in (48, 32, 16, 0)]}) for k, v in (c["caps"] or {}).items()} if c["expect_match"] else {}
        add({"kind": "cap", "shape": c["shape"], "rule": c["rule"], "input": c["input"], "expect_match": c["expect_match"], "caps": caps_law}, c["rule"], None, c["input"])
    rnd.shuffle(cases)
    log(f"[{prop}] {len(cases)} grok cases ({time.time()-t0:.0f}s)")
    cpath = os.path.join(wd, "cases.ndjson")
    with open(cpath, "w") as f:
        for c in cases:
            f.write(json.dumps(c) + "\n")
    run([VH, "calls", "--cases", cpath, "--out", os.path.join(wd, "tr"), "--shards", str(NCPU), "--deadline-ms", load_scaled(20000)], cwd=wd, timeout=7200)
    traces = [os.path.join(wd, f"tr.{i}.ndjson") for i in range(NCPU)]
    agg = aggregate(validate(traces, wd, spec="FnLaws.tla", cfg=TRACE_CFG))
    cnt = agg["cnt"]
    write_json(os.path.join(wd, "findings.json"), {"viols": agg["viols"][:500]})

    def replay_writer(v):
        with open(v["_file"]) as f:
            line = f.readlines()[v["line"] - 1]
        return {"engine": "C/grok", "record": json.loads(line)}

    coverage = {
        "evaluations": cnt.get("laws", 0), "distinct_nontrivial": cnt.get(prop, 0),
        "rule": "cases generated AND judged by Grok.tla: all 512 alias digraphs on three aliases over 8 definition bodies (cycle reachable from the "
                "rule's alias <=> compilation rejected; otherwise the expansion matches its own text); literal rules of <= 2 (thorough 3) characters "
                "over letters, digits, space and escaped metacharacters . [ ( * + ? | \\ against their own text and other texts; rules "
                "%{P1:f} %{P2:g} over word/integer/notSpace x word/integer/notSpace/data on all inputs of <= 4 (thorough 5) characters over "
                "{a,Z,1,2,-,_,space,.} (quick: 2500 matching + 2500 non-matching sampled) with the captures computed by the reference matcher",
        "samples": [c["inp"] for c in cases[:3]],
        "states": gst + agg["states"], "transitions": gtr + agg["transitions"], "traces_validated_against_impl": cnt.get("laws", 0),
        "alias_graphs": len(cyc), "literal_rules": len(lits), "capture_cases": len(caps),
    }
    assumptions = ["the reference matcher covers rules of the shape `%{P1:f} %{P2:g}` (P1 without spaces), not the whole grok pattern library"]
    mine = [v for v in agg["viols"] if v["prop"] == prop]
    return verdict(prop, tier, seed, "exploration", coverage, mine, assumptions, t0, replay_writer)


# ---------------------------------------------------------------------------------------------
# C27: crc against the parametrised model of Crc.tla (one message bit per TLC step), hmac against its definition over the real
# hashes, published vectors and shape laws for md5 / sha1 / sha2 / sha3

def check_digests(prop, tier, seed):
    t0 = time.time()
    wd = workdir(f"{prop}_{tier}")
    build_harness()
    U, gst, gtr = universes("GenCrc.tla", wd, ["CRC_NAMES"])
    rnd = random.Random(seed)
    cases = []

    def add(name, fn, exprs, inp):
        ev = {k: plain(v) for k, v in inp.items() if isinstance(v, dict) and "t" in v}
        cases.append({"worker": "eval", "f": fn, "args": [], "ret": [], "src": f"{name}:{fn}", "law": {"name": name, "fn": fn}, "inp": inp,
                      "event": {"t": "obj", "m": ev}, "exprs": exprs})
    lb = lambda bs: {"t": "bytes", "c": list(bs)}
    rb = lambda n: [rnd.getrandbits(8) for _ in range(n)]
    n_msgs = 2 if tier == "quick" else 30
    for alg in U["CRC_NAMES"]:
        add("crc", alg, {}, {"alg": alg, "x": lb(b"123456789"), "published": True})
        msgs = ([b"", b"123456789", bytes([0, 0, 0])] if tier == "quick" else [b"", b"123456789", b"a", bytes([0]), bytes([0, 0, 0, 0]), bytes([255] * 5)]) + \
               [bytes(rb(rnd.randint(1, 10 if tier == "quick" else 14))) for _ in range(n_msgs)]
        for m in msgs:
            add("crc", alg, {"out": f'crc!(.x, algorithm: "{alg}")'}, {"alg": alg, "x": lb(m), "published": False})
    H = {"SHA1": ("sha1!({})", 64), "SHA-224": ('sha2!({}, variant: "SHA-224")', 64), "SHA-256": ('sha2!({}, variant: "SHA-256")', 64),
         "SHA-384": ('sha2!({}, variant: "SHA-384")', 128), "SHA-512": ('sha2!({}, variant: "SHA-512")', 128)}
    for algo, (h, block) in H.items():
        for klen in [0, 1, 20, block - 1, block]:
            for _ in range(3 if tier == "quick" else 20):
                key = rb(klen)
                padded = key + [0] * (block - len(key))
                msg = rb(rnd.choice([0, 1, 3, 55, 56, 64, 100, 200]))
                inner = "decode_base16!(" + h.format("(string!(.ki) + string!(.m))") + ")"
                add("hmac_def", f"hmac({algo})", {"mac": f'hmac!(.m, .key, algorithm: "{algo}")', "def": "decode_base16!(" + h.format(f"(string!(.ko) + {inner})") + ")"},
                    {"key": lb(key), "m": lb(msg), "ki": lb([b ^ 0x36 for b in padded]), "ko": lb([b ^ 0x5c for b in padded]), "block": block})
    FAM = {"md5": ("md5!({})", ["md5"]), "sha1": ("sha1!({})", ["sha1"]),
           "sha2": ('sha2!({}, variant: "VAR")', ["SHA-224", "SHA-256", "SHA-384", "SHA-512", "SHA-512/224", "SHA-512/256"]),
           "sha3": ('sha3!({}, variant: "VAR")', ["SHA3-224", "SHA3-256", "SHA3-384", "SHA3-512"])}
    for fam, (tmpl, variants) in FAM.items():
        for v in variants:
            e = tmpl.replace("VAR", v)
            for m in ["", "abc", "message digest"]:
                if (v, m) in {("md5", ""), ("md5", "abc"), ("md5", "message digest"), ("sha1", ""), ("sha1", "abc"), ("SHA-224", ""), ("SHA-224", "abc"), ("SHA-256", ""), ("SHA-256", "abc"),
                              ("SHA-384", ""), ("SHA-384", "abc"), ("SHA-512", ""), ("SHA-512", "abc"), ("SHA-512/224", ""), ("SHA-512/224", "abc"), ("SHA-512/256", ""), ("SHA-512/256", "abc"), ("SHA3-224", ""), ("SHA3-256", ""), ("SHA3-256", "abc"), ("SHA3-384", ""), ("SHA3-512", "")}:
                    add("digest_vector", f"{fam}({v})", {"out": e.format(".x")}, {"f": v, "x": lstr(m)})
            for _ in range(20 if tier == "quick" else 300):
                x = rb(rnd.randint(0, 80))
                y = list(x)
                if y and rnd.random() < 0.8:
                    y[rnd.randrange(len(y))] ^= 1 << rnd.randrange(8)
                elif rnd.random() < 0.5:
                    y = y + [0]
                add("digest_shape", f"{fam}({v})", {"x": e.format(".x"), "y": e.format(".y")}, {"f": v, "x": lb(x), "y": lb(y)})
        if len(variants) > 1:
            for _ in range(10 if tier == "quick" else 100):
                add("digest_variants", fam, {v: tmpl.replace("VAR", v).format(".x") for v in variants}, {"x": lb(rb(rnd.randint(0, 40)))})
    # md5 / sha1 / sha2 against the bit-level model (Sha.tla), one compression round per TLC step
    PUB = {("md5", ""): "d41d8cd98f00b204e9800998ecf8427e", ("md5", "abc"): "900150983cd24fb0d6963f7d28e17f72", ("md5", "message digest"): "f96b697d7cb7938d525a2f31aaf161d0",
           ("sha1", ""): "da39a3ee5e6b4b0d3255bfef95601890afd80709", ("sha1", "abc"): "a9993e364706816aba3e25717850c26c9cd0d89d",
           ("SHA-224", ""): "d14a028c2a3a2bc9476102bb288234c415a2b01f828ea62ac5b3e42f", ("SHA-224", "abc"): "23097d223405d8228642a477bda255b32aadbce4bda0b3f7e36c9da7",
           ("SHA-256", ""): "e3b0c44298fc1c149afbf4c8996fb92427ae41e4649b934ca495991b7852b855", ("SHA-256", "abc"): "ba7816bf8f01cfea414140de5dae2223b00361a396177a9cb410ff61f20015ad",
           ("SHA-384", ""): "38b060a751ac96384cd9327eb1b1e36a21fdb71114be07434c0cc7bf63f6e1da274edebfe76f65fbd51ad2f14898b95b",
           ("SHA-384", "abc"): "cb00753f45a35e8bb5a03d699ac65007272c32ab0eded1631a8b605a43ff5bed8086072ba1e7cc2358baeca134c825a7",
           ("SHA-512", ""): "cf83e1357eefb8bdf1542850d66d8007d620e4050b5715dc83f4a921d36ce9ce47d0d13c5d85f2b0ff8318d2877eec2f63b931bd47417a81a538327af927da3e",
           ("SHA-512", "abc"): "ddaf35a193617abacc417349ae20413112e6fa4e89a97ea20a9eeee64b55d39a2192992a274fc1a836ba3c23a3feebbd454d4423643ce80e2a9ac94fa54ca49f"}
    PUB.update({("SHA-512/224", ""): "6ed0dd02806fa89e25de060c19d3ac86cabb87d6a0ddd05c333b84f4", ("SHA-512/224", "abc"): "4634270f707b6a54daae7530460842e20e37ed265ceee9a43e8924aa", ("SHA-512/256", ""): "c672b8d1ef56ed28ab87c3622c5114069bdd3ad7b8f9737498d0c01ecef0967a", ("SHA-512/256", "abc"): "53048e2681941ef99b2e29b76b4c7dabe4c2d0c634fc6d46e0e2f13107e7af23"})
    EXPR = {"SHA-512/224": 'sha2!(.x, variant: "SHA-512/224")', "SHA-512/256": 'sha2!(.x, variant: "SHA-512/256")', "md5": "md5!(.x)", "sha1": "sha1!(.x)", "SHA-224": 'sha2!(.x, variant: "SHA-224")', "SHA-256": 'sha2!(.x, variant: "SHA-256")',
            "SHA-384": 'sha2!(.x, variant: "SHA-384")', "SHA-512": 'sha2!(.x, variant: "SHA-512")'}
    for (f, m), h in PUB.items():
        add("sha", f, {}, {"f": f, "x": lstr(m), "want": lstr(h), "published": True})
    for f, e in EXPR.items():
        block = 128 if f in ("SHA-384", "SHA-512", "SHA-512/224", "SHA-512/256") else 64
        lens = ([3, block - 8 - (8 if block == 128 else 0), block] if tier == "quick" else
                [0, 1, 3, block - 9 - (8 if block == 128 else 0), block - 8 - (8 if block == 128 else 0), block - 1, block, block + 1]) + [rnd.randint(2, 150) for _ in range(1 if tier == "quick" else 25)]
        for n in lens:
            add("sha", f, {"out": e}, {"f": f, "x": lb(rb(max(0, n))), "published": False})
    PUB3 = {("SHA3-224", ""): "6b4e03423667dbb73b6e15454f0eb1abd4597f9a1b078e3f5b5a6bc7", ("SHA3-256", ""): "a7ffc6f8bf1ed76651c14756a061d662f580ff4de43b49fa82d80a4b80f8434a",
            ("SHA3-256", "abc"): "3a985da74fe225b2045c172d6bd390bd855f086e3e9d525b46bfe24511431532",
            ("SHA3-384", ""): "0c63a75b845e4f7d01107d852e4c2485c51a50aaaa94fc61995e71bbee983a2ac3713831264adb47fb6bd1e058d5f004",
            ("SHA3-512", ""): "a69f73cca23a9ac5c8b567dc185a756e97c982164fe25859e0d1dcc1475c80a615b2123af1f5f94c11e3e9402c3ac558f500199d95b6d3e301758586281dcd26"}
    for (f, m), h in PUB3.items():
        add("sha3", f, {}, {"f": f, "x": lstr(m), "want": lstr(h), "published": True})
    for f, rate in (("SHA3-224", 144), ("SHA3-256", 136), ("SHA3-384", 104), ("SHA3-512", 72)):
        lens = ([5, rate - 1] if tier == "quick" else [0, 1, 5, rate - 2, rate - 1, rate, rate + 1, 2 * rate]) + [rnd.randint(2, 200) for _ in range(1 if tier == "quick" else 20)]
        for n in lens:
            add("sha3", f, {"out": f'sha3!(.x, variant: "{f}")'}, {"f": f, "x": lb(rb(n)), "published": False})
    XX = {"XXH32": "x32", "XXH64": "x64", "XXH3-64": "x3"}
    for v in list(XX) + ["XXH3-128"]:
        add("xx_vector", f"xxhash({v})", {"out": f'xxhash!(.x, variant: "{v}")'}, {"variant": v, "x": lb(b"")})
    for _ in range(40 if tier == "quick" else 600):
        x = rb(rnd.randint(0, 100))
        y = list(x)
        if rnd.random() < 0.15:
            pass
        elif y and rnd.random() < 0.8:
            y[rnd.randrange(len(y))] ^= 1 << rnd.randrange(8)
        else:
            y = y + [0]
        ex = {}
        for suffix, fld in (("", ".x"), ("_y", ".y")):
            for v, nm in XX.items():
                ex[nm + suffix] = f'xxhash!({fld}, variant: "{v}")'
            ex["x128" + suffix] = f'xxhash!({fld}, variant: "XXH3-128")'
            ex["sea" + suffix] = f"seahash!({fld})"
        add("hash_laws", "xxhash/seahash", ex, {"x": lb(x), "y": lb(y)})
    rnd.shuffle(cases)
    log(f"[{prop}] {len(cases)} digest cases ({time.time()-t0:.0f}s)")
    cpath = os.path.join(wd, "cases.ndjson")
    with open(cpath, "w") as f:
        for c in cases:
            f.write(json.dumps(c) + "\n")
    run([VH, "calls", "--cases", cpath, "--out", os.path.join(wd, "tr"), "--shards", str(NCPU), "--deadline-ms", load_scaled(10000)], cwd=wd, timeout=7200)
    traces = [os.path.join(wd, f"tr.{i}.ndjson") for i in range(NCPU)]
    agg = aggregate(validate(traces, wd, spec="CrcTrace.tla", cfg=TRACE_CFG))
    cnt = agg["cnt"]
    write_json(os.path.join(wd, "findings.json"), {"viols": agg["viols"][:500]})

    def replay_writer(v):
        with open(v["_file"]) as f:
            line = f.readlines()[v["line"] - 1]
        return {"engine": "C/digests", "record": json.loads(line)}

    by = {}
    for c in cases:
        by[c["law"]["name"]] = by.get(c["law"]["name"], 0) + 1
    coverage = {
        "evaluations": cnt.get("laws", 0), "distinct_nontrivial": cnt.get("C27", 0),
        "rule": "crc: every one of the 112 catalogue algorithms x {empty, '123456789', single bytes, zero and 0xFF runs, seeded random messages up to 14 bytes}: the "
                "model register of Crc.tla is advanced one message bit per TLC step and the decimal rendering of the result compared with the real function's text; "
                "the model itself is checked in the same run against the published check value of every algorithm (records `published`). hmac: every algorithm x key "
                "lengths {0, 1, 20, block-1, block} x messages: equal to H((K xor opad) || H((K xor ipad) || m)) evaluated with the real hash functions, pads "
                "recomputed by the spec. md5/sha1/sha2/sha3: published vectors, lower-case hex of the right length, different messages give different digests, "
                "variants of a family never agree",
        "samples": [{"law": c["law"], "inp": c["inp"]} for c in cases[:3]],
        "states": gst + agg["states"], "transitions": gtr + agg["transitions"], "traces_validated_against_impl": cnt.get("laws", 0),
        "model_self_checks_against_published_values": cnt.get("published", 0), "instances_per_law": by,
    }
    assumptions = ["CRC parameters and check values are the published catalogue's (transcribed into Crc.tla from the crc-catalog data)",
                   "md5, sha1, sha2, sha3, xxhash have no model here beyond published vectors and shape/distinctness laws; seahash only the laws",
                   "hmac with keys longer than the block (hashed first) is not covered by the definitional law"]
    mine = [v for v in agg["viols"] if v["prop"] == prop]
    return verdict(prop, tier, seed, "model_checking", coverage, mine, assumptions, t0, replay_writer)
