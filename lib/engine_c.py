"""Engine C - operators, function contracts and laws, datadog search, grok, diagnostics, timezones."""
import json, os, time, random, itertools
from common import *
from engine_a import validate, aggregate
from engine_b import universes, run_cases, TRACE_CFG


def rand_limbs(rnd):
    style = rnd.random()
    if style < 0.3:
        x = rnd.getrandbits(64)
    elif style < 0.6:
        x = rnd.choice([0, 1, 2**31, 2**53, 2**63 - 1, 2**63, 2**64 - 1]) + rnd.randint(-3, 3)
    else:
        x = rnd.getrandbits(rnd.choice([8, 16, 32, 52, 53, 54, 62]))
        if rnd.random() < 0.5:
            x = -x
    x %= 2**64
    return [(x >> 48) & 0xffff, (x >> 32) & 0xffff, (x >> 16) & 0xffff, x & 0xffff]


def rand_float_bits(rnd):
    import struct
    while True:
        style = rnd.random()
        if style < 0.4:
            f = rnd.choice([0.0, -0.0, 1.0, -1.0, 0.1, 1e300, -1e300, 5e-324, float("inf"), float("-inf"), 2.0**53, 3.5])
        elif style < 0.7:
            f = float(rnd.randint(-2**40, 2**40)) / rnd.choice([1, 2, 3, 1024, 10**6])
        else:
            f = struct.unpack(">d", struct.pack(">Q", rnd.getrandbits(64)))[0]
        if f == f:
            x = struct.unpack(">Q", struct.pack(">d", f))[0]
            return [(x >> 48) & 0xffff, (x >> 32) & 0xffff, (x >> 16) & 0xffff, x & 0xffff]


def check_ops(prop, tier, seed):
    t0 = time.time()
    wd = workdir(f"{prop}_{tier}")
    build_harness()
    u, gst, gtr = universes("GenOps.tla", wd, ["INTS", "FLOATS", "STRS", "STAMPS", "OTHERS"])
    ints, floats, strs, stamps, others = u["INTS"], u["FLOATS"], u["STRS"], u["STAMPS"], u["OTHERS"]
    rnd = random.Random(seed)
    pools = [ints, floats, strs, stamps]
    cases = []
    for pool in pools:                      # all pairs within each comparable kind
        cases += [{"l": a, "r": b} for a in pool for b in pool]
    cases += [{"l": a, "r": b} for a in ints for b in floats] + [{"l": b, "r": a} for a in ints for b in floats]
    # string repetition: only small or negative counts (multi-gigabyte repetitions are out of scope: memory exhaustion)
    small = [i for i in ints if (i["w"][0] == 0 and i["w"][1] == 0 and i["w"][2] == 0 and i["w"][3] < 64) or i["w"][0] >= 32768]
    cases += [{"l": a, "r": b} for a in strs for b in small] + [{"l": b, "r": a} for a in strs for b in small]
    cases += [{"l": a, "r": b} for a in others for b in others]
    cases += [{"l": a, "r": b} for a in strs for b in others[:1]] + [{"l": b, "r": a} for a in strs for b in others[:1]]
    cases += [{"l": a, "r": b} for a in others for b in ints[:3] + floats[:3] + strs[:2]]
    n = 3000 if tier == "quick" else 100000
    for _ in range(n):
        k = rnd.random()
        if k < 0.4:
            cases.append({"l": {"t": "int", "w": rand_limbs(rnd)}, "r": {"t": "int", "w": rand_limbs(rnd)}})
        elif k < 0.65:
            cases.append({"l": {"t": "float", "b": rand_float_bits(rnd)}, "r": {"t": "float", "b": rand_float_bits(rnd)}})
        elif k < 0.85:
            a, b = {"t": "int", "w": rand_limbs(rnd)}, {"t": "float", "b": rand_float_bits(rnd)}
            cases.append({"l": a, "r": b} if rnd.random() < 0.5 else {"l": b, "r": a})
        else:
            mk = lambda: {"t": "bytes", "c": [rnd.choice([0, 97, 98, 255]) for _ in range(rnd.randint(0, 4))]}
            cases.append({"l": mk(), "r": mk()})
    log(f"[{prop}] {len(cases)} operand pairs x 10 operators ({time.time()-t0:.0f}s)")
    traces = run_cases(cases, wd, "ops", shards=NCPU)
    agg = aggregate(validate(traces, wd, spec="TraceOps.tla", cfg=TRACE_CFG))
    cnt = agg["cnt"]
    write_json(os.path.join(wd, "findings.json"), {"viols": agg["viols"][:200]})

    def replay_writer(v):
        with open(v["_file"]) as f:
            line = f.readlines()[v["line"] - 1]
        return {"engine": "C/ops", "record": json.loads(line)}

    coverage = {
        "evaluations": cnt.get("pairs", 0) * 10,
        "distinct_nontrivial": cnt.get("comparable_pairs", 0) if prop == "C10" else cnt.get("numeric_pairs", 0),
        "rule": "operand pairs: all pairs inside each TLC-defined edge pool (22 integers incl. 0, +-1, 2^31, 2^53+-1, MIN, MAX; 19 floats incl. "
                "+-0, subnormals, +-inf, 2^53(+2), extremes; 8 byte strings; 5 timestamps), all integer x float pairs both ways, strings x "
                "integers, structured and null/boolean values, plus seeded random pairs (quick 3000, thorough 100000); each pair through the "
                "ten compiled operator programs. non-trivial = " + ("both operands of the same comparable kind" if prop == "C10" else "both operands numeric"),
        "samples": cases[:2] + cases[-1:],
        "states": gst + agg["states"], "transitions": gtr + agg["transitions"],
        "traces_validated_against_impl": cnt.get("pairs", 0),
        "pairs": cnt.get("pairs", 0), "comparable_pairs": cnt.get("comparable_pairs", 0), "numeric_pairs": cnt.get("numeric_pairs", 0),
        "witnesses_for_other_properties": sorted({sig_of(v) for v in agg["viols"] if v["prop"] != prop}),
    }
    assumptions = ["integer arithmetic is checked against 64-bit wrapping arithmetic on limbs computed by TLC; float ORDER is checked against the "
                   "IEEE-754 bit fields; float ARITHMETIC is not modelled - mixed operations are compared bit for bit with the same operation "
                   "on the converted integer, executed by the same runtime",
                   "operators run through compiled programs (`.l OP .r`), so Op::resolve is on the path"]
    mine = [v for v in agg["viols"] if v["prop"] == prop]
    return verdict(prop, tier, seed, "exploration", coverage, mine, assumptions, t0, replay_writer)
