#!/usr/bin/env python3
"""Regenerates /verif/MANIFEST.json from the table below (single source of truth)."""
import json, os, subprocess

VERIF = os.path.dirname(os.path.dirname(os.path.abspath(__file__)))
props = [json.loads(l) for l in open(os.path.join(VERIF, "properties.jsonl"))]
ids = [p["id"] for p in props]

A_NOTE = ("trusted: the harness' renderer (AST -> source) and span-based attachment of compiler records to nodes; hook H1 "
          "brackets every Expr::resolve and H2 records compile_expr results; TLC; programs are bounded by the focus grammar "
          "of spec/GenCore.tla and the event universe there")

CHECKS = {
 "C06": dict(engine="A", cat="model_checking", design="5/C06",
   tech="TLC-generated programs replayed on the real interpreter; TLC trace validation against the VrlCore abstract machine (return propagation rules)",
   text="TLC enumerates every program of the C06 focus grammar (a guarded `return` placed under ??, ||, &&, arithmetic, =, `ok, err =`, arrays, objects, if predicates/branches, function arguments, abort messages, nested returns, and closure bodies of for_each/filter/map_values/map_keys over objects and arrays) and the harness runs each on every event of the universe with hooks on; TLC then validates every recorded Enter/Exit/target event against VrlCore!Expect: after a child exits with `return v` every enclosing construct must propagate it unchanged up to the program (or end exactly the closure iteration), no later Enter or target operation may occur, and Runtime::resolve must end Ok(v)."),
 "C07": dict(engine="A", cat="model_checking", design="5/C07",
   tech="TLC-generated programs replayed on the real interpreter; TLC trace validation against the VrlCore abstract machine (abort propagation rules)",
   text="Same machinery as C06 with `abort` / `abort \"m\"` at every nesting position: once a child exits with abort(m) every enclosing construct (including ??, `ok, err =`, ||, closures) must exit with the same abort, nothing else may be entered, and the run must end Terminate::Abort carrying m."),
 "C08": dict(engine="A", cat="model_checking", design="5/C08",
   tech="TLC-generated programs replayed on the real interpreter; TLC trace validation of the ?? and `ok, err =` protocol automata incl. stored default = DefaultOfKind(compiler's kind)",
   text="TLC enumerates `a ?? b` and `ok, err = e` over failing/succeeding operands with observable side effects and every target shape; trace validation checks on each real run that b is entered iff a exited with an error, the value is a's or b's, that ok/err receive (value, null) or (default of the compiler-reported kind of e, message string), the expression's value is e's value or the message, and (through reads of ok checked with InKind against the compiler's kind) that the default belongs to ok's reported type."),
 "C09": dict(engine="A", cat="model_checking", design="5/C09",
   tech="TLC-generated programs replayed on the real interpreter; TLC trace validation of the ||, &&, if protocol automata (absent Enter events = unevaluated operands)",
   text="TLC enumerates ||, && (plain and nested) with left operands of every value kind and right operands that assign variables, the event, metadata or delete fields, and if / if-else / multi-expression predicates over constant and event-dependent conditions; trace validation checks on each real run that the right operand / branch is entered exactly when the rule says, that the construct's value is the prescribed one (a, b, false, conjunction, null for a missing else) and that exactly one branch runs."),
 "C13": dict(engine="A", cat="model_checking", design="5/C13",
   tech="TLC-generated programs replayed on the real interpreter; TLC trace validation with variable-store snapshots around every closure-taking call",
   text="TLC enumerates for_each/map_values calls over objects, arrays (incl. empty and event-supplied) whose closure succeeds, fails on a later item, handles its failure, assigns its own parameter or an outer variable, with and without outer variables named like the parameters, the call being plain, coalesced with ?? or captured with `ok, err =`; the hook logs the variable store whenever it changes and trace validation requires, at the exit of every closure-taking call that finishes Ok or Err, that each parameter name holds exactly what it held at entry (or is unset), and at the end of a successful run that no pure parameter name is visible."),
 "C01": dict(engine="A", cat="model_checking", design="5/C01",
   tech="TLC-generated programs x TLC-filtered conforming events replayed on the real compiler/interpreter; TLC evaluates the spec's own InKind(value, compiler-reported kind) on every recorded exit and on the final result/event/metadata",
   text="TLC enumerates programs (prelude; 1-2 (thorough 3) statements out of 26 that change what the compiler knows - assignments of every value shape to variables, variable paths, event/metadata paths and index segments, conditional reassignment, del on variables and event paths, closures assigning outer variables, short-circuited and coalesced assignments, infallible assignment, merge; one of 12 'user' statements; an observation of every variable, the event and metadata) under two external type environments (any object; a closed typed object), and for each environment exactly the events the spec's InKind admits. The real compiler's per-expression kinds (hook H2), result/return kinds and final target/metadata kinds are serialised through Kind's public API; trace validation evaluates the TLA+ membership predicate on the real value of every expression exit (variable reads attributed to C01), on the program result (result or return kind), and on the final event and metadata."),
 "C02": dict(engine="A", cat="model_checking", design="5/C02",
   tech="TLC-generated programs replayed on the real compiler/interpreter; TLC trace validation: an error may originate only at a node the compiler typed fallible; programs without ! / abort must end Ok; ProgramInfo.fallible/abortable",
   text="Same program space as C01 (the 12 'user' statements are accepted by the compiler only when its type knowledge makes them infallible - constant divisors, narrowed variable kinds, typed event fields). On every recorded exit with an error that originates at that node (no child erred) the compiler's pre-`!` fallibility for the node must be true; a program with no `!` call and no abort must end Ok on every conforming event; info.fallible = false forbids Terminate::Error and info.abortable = false forbids Terminate::Abort."),
 "C12": dict(engine="A", cat="model_checking", design="5/C12",
   tech="TLC-generated programs replayed on the real compiler/interpreter; TLC trace validation compares every compile-time constant (resolve_constant at compile_expr, hook H2) with the value of every runtime exit of that node",
   text="Same program space as C01, built around constant-valued variables that are later reassigned conditionally, in closures, through paths, by del, by merge, by infallible assignment. Whenever the compiler recorded a constant for an expression, every successful evaluation of that expression in every run must yield exactly that value."),
 "C16": dict(engine="A", cat="model_checking", design="5/C16",
   tech="TLC-generated programs replayed against a logging Target; TLC trace validation checks every recorded target_get/insert/remove path against ProgramInfo.target_queries / target_assignments (equal, ancestor or descendant)",
   text="Same program space as C01 plus the C08/C09 grammars' target-touching operands: every target operation the real run performs (except Runtime::resolve's own root probe) is logged by the harness' Target wrapper with prefix and path; trace validation requires each read/removal to be covered by a reported query and each insert by a reported assignment."),
 "C15": dict(engine="A", cat="model_checking", design="5/C15",
   tech="TLC-enumerated read-only sets x writing programs replayed under the real CompileConfig; TLC trace validation compares Get(event/metadata, path) before and after every accepted program's run (Values.tla path semantics) and classifies the write that changed it",
   text="TLC enumerates read-only configurations (every entry over ., .a, .a.b, .a[0], .a[1], .a[-1], %, %m, %m.k, recursive or not; thorough: pairs) x programs of one (thorough: two) writes in their neighbourhood (assignment to the path, parents, children, positive/negative/out-of-range indices, root replacement, merge, del with every index form, metadata, both targets of `ok, err =`, a write from inside a closure) x events whose .a is absent, a scalar, an object, arrays of length 0-3. Every program the real compiler accepts under that configuration is run; trace validation requires for each entry that the value at the path (recursive: deeply; otherwise same scalar / same container type) is the same before and after, and names the relation of the responsible write to the entry (syntactic parent/self/child - what the compiler's check must reject - versus index aliasing, sibling shift, container replacement)."),
 "C17": dict(engine="A", cat="fault_enumeration", design="5/C17",
   tech="TLC-enumerated fault schedules injected by a faulting Target into replays of TLC-generated programs; TLC trace validation of the faulted run + equality with a run on a target that skips the same operations",
   text="TLC enumerates fault schedules (every set of at most 1 (thorough 2) ordinals among the first 7 (thorough 9) target operations of a run, ordinal 0 being Runtime::resolve's root probe) and the target-touching programs of the C08/C09 grammars (queries, assignments to event and metadata, del, exists, infallible assignment to paths). For every (program, event, schedule) the harness runs the real interpreter against a Target that rejects exactly those operations and against one that silently skips them. Trace validation walks the faulted run event by event (a rejected read must behave as null, the machine must go on exactly as the rules say, no panic event), requires a failed root probe to end the run with an error before anything is evaluated, and requires result, final event, metadata and variables of the faulted run to equal the skip run's."),
 "C34": dict(engine="A", cat="model_checking", design="5/C34",
   tech="TLC-generated programs with discarded statements; the harness deletes every statement the real compiler flags as an unused result, recompiles and runs both programs; TLC evaluates the Removable predicate of TraceUnused.tla on the recorded pairs of runs",
   text="TLC enumerates programs whose middle statement (at root level and inside a block; thorough: two of them) is a discarded expression from a grammar of 45 shapes - literals, variables, queries, objects, arrays, pure calls, arithmetic/comparison/||/?? operators, not, groups, blocks, ifs, del/exists, closures - with and without an assignment or del hidden in an operand, argument, member, predicate or closure body. For every real warning `unused ...` (not `unused variable`) whose label covers exactly one statement, the statement is deleted, the program recompiled, and both are run on every event; TLC checks: if the compiler typed the statement infallible, final event, metadata and success/failure are equal; otherwise whenever the original succeeds the edited one succeeds with the same final event.",
   note="trusted: the harness' renderer and the statement deletion (re-rendering the AST without the statement); a warning whose span is not exactly one statement, or whose edited program does not compile, is counted as unjudged"),
 "C14": dict(engine="A", cat="model_checking", design="5/C14",
   tech="TLC model checking of Runtime.tla (all interleavings of threads sharing an immutable program, cleared-runtime histories, with non-vacuity deviations) + conformance: the real Program compiled twice, run on fresh / cleared runtimes and from 8 threads, outcomes compared and sequential traces validated by TraceCore",
   text="Design level: Runtime.tla lets 3 threads evaluate one immutable program step by step in every interleaving, each processing 2 events with Runtime::clear in between; TLC checks exhaustively that every finished run's result and final event are the function of its event alone (Deterministic) and the frame condition (a step of t touches only t's state); two named deviations (a shared scratch cell; reuse without clear) are checked to violate it, so the invariant is not vacuous. Implementation level: every program (TLC-generated from the C08/C09/C13 grammars, plus every stdlib example that calls no exempt function) is compiled twice (reports must be equal), run per event on a fresh runtime (baseline; for generated programs the traces are validated by TraceCore), on one runtime cleared between events in two orders, and by 8 threads sharing the one Program with rotated event orders and yields; TLC requires every observed outcome (result, final event, metadata, variables) to equal the baseline.",
   note="trusted: the harness' thread driver; real OS schedules are sampled (8 threads x reps x events per program), not enumerated - the exhaustive part is the model's; exempt functions listed in the evidence"),
 "C18": dict(engine="B", cat="model_checking", design="6/C18",
   tech="TLC-defined universes of values/paths; real Value/TargetValue get/insert/remove results validated by TLC against laws L1-L5 and the transcribed reference operations of Values.tla",
   text="GenValues.tla defines the bounded universes (values of depth <= 2 over fields {a,b}, arrays of length 0-3, scalars; paths of <= 3 segments over fields, a quoted field, positive, negative and out-of-range indices; inserted scalars/containers). For every tuple the harness calls the real Value::get/get_mut/insert/remove (both prune flags) and TargetValue::target_get/insert/remove and records the results; TLC evaluates on them: get-after-insert, the insertion frame law over all independent locations (computed with the spec's own Get), remove returns what get returned, nothing is found or removed through a non-container, insert returns the previous value, get_mut and the Target wrappers agree - and reports where Values.tla's transcribed Get/Insert/Remove differ from the code (no divergence on the pinned tree).",
   note="trusted: the harness' value/path (de)serialisation; Independent() excludes by design the locations an insertion legitimately changes (field-vs-index replacement, front padding shifts, growth under negative indices)"),
 "C19": dict(engine="B", cat="model_checking", design="6/C19",
   tech="TLC-generated kinds with member values chosen by the specification's independent InKind; real Kind at_path/get/insert/remove/union/merge/is_superset results checked by TLC with InKind against the real Value operations",
   text="GenKinds.tla enumerates 682 kinds (primitive sets, objects with known fields and unknown in {none, exact integer, exact bytes|null, any, json}, arrays with known indices incl. holes and optional elements, nesting, collection-or-primitive) and computes with the TLA+ membership predicate which of 197 values each contains. For sampled (kind, member, path, inserted kind+member, merge partner, compact) cases the harness builds the real Kind through public builders, applies the real Kind operations and the real Value operations, and TLC checks soundness S1-S5 (read, insert, remove incl. the removed value's kind, union/merge, subtype test vs membership) on the real results, naming the circumstances (negative index, optional/sparse known index, through an unknown member, padding, compaction, collection-or-primitive, optional field on the merge's right side) of every violation.",
   note="trusted: InKind's reading of what a kind means (written from the documentation of kinds, independent of Kind's code); the harness' kind builder/serialiser (cases whose kind does not survive the builder round trip are not judged)"),
 "C20": dict(engine="B", cat="model_checking", design="6/C20",
   tech="PathSyntax.tla transcribes the path renderer and the JIT parser state machine; TLC model-checks the round trip on it and validates the real renderer, parse_value_path / parse_target_path / string conversions and the VRL compiler's query paths against it",
   text="Model level: TLC checks on the transcribed serialize_field/renderer and the 11-state JIT parser that every path of 1-2 segments over hostile field strings (quotes, backslashes, dots, spaces, brackets, non-ASCII, empty) and positive/negative/multi-digit indices survives Render -> Parse, with either target prefix (26406 paths, exhaustive). Implementation level: the same paths (plus triples) go through the real String::from(&OwnedValuePath), parse_value_path, OwnedTargetPath display + parse_target_path with both prefixes and the TryFrom<String> conversions (R1); every text of length <= 4 (thorough 5) over {. a - [ ] 0 1 \" \\ @ % space} plus seeded longer ones goes through parse_value_path, parse_target_path and - as a query expression - the real VRL compiler, whose compiled path is read from ProgramInfo (R2: when both accept, same prefix and segments). Differences between the transcription and the code are reported as divergences (none on the pinned tree).",
   note="trusted: character-sequence transport of texts and fields; the bounded alphabets listed in GenPaths.tla"),
 "C10": dict(engine="C", cat="exploration", design="6/C10",
   tech="TLC-defined operand pools; the real operators run through compiled programs; TLC evaluates trichotomy/consistency from the six comparison results and checks them against limb equality / limb order / IEEE-754 bit-field order / bytewise order computed in Ops.tla",
   text="GenOps.tla defines edge pools for every comparable kind (22 integers around 0, 2^31, 2^53, MIN, MAX; 19 floats incl. signed zeros, subnormals, infinities, 2^53 and extremes; byte strings incl. empty, prefix pairs, 0x00 and 0xff; timestamps) - all pairs inside each pool, all integer x float pairs, structured/null/boolean values, plus seeded random pairs. Each pair is fed to the ten compiled programs `.l OP .r`; TLC checks on the recorded results: exactly one of <, ==, > ; != is the negation of == ; <= / >= agree; integer == is limb equality; < agrees with the signed limb order (integers), the sign/exponent/mantissa order (floats), bytewise lexicographic order (strings), nanosecond order (timestamps); mixed integer/float == equals the float comparison of the converted integer; structural equality for arrays/objects.",
   note="trusted: Ops.tla's limb arithmetic (self-tested by ASSUMEs in GenOps.tla) and IEEE-754 field decoding; the harness' operand encoding; seeded random pairs beyond the pools are a sample"),
 "C11": dict(engine="C", cat="exploration", design="6/C11",
   tech="same runs as C10; TLC checks +,-,* on integers against 64-bit wrapping limb arithmetic (ripple-carry / schoolbook on 8-bit limbs), / rules, mixed operations bit-for-bit against the operation on the converted integer, string + and *, and the absence of NaN results",
   text="On the same operand pairs: integer +, -, * must equal two's-complement wrapping arithmetic computed by TLC on limbs; / always yields a float and fails exactly when the divisor is integer 0 or float +-0; every operation with at least one float (and integer /) must be bit-identical to the same operation on the integer converted to float (executed by the same runtime - this is the statement's own definition, so no float model is needed); string + string concatenates, null acts as the empty string, string * n repeats max(n,0) times; no recorded float result is NaN (an error must be recorded instead).",
   note="trusted: as C10; float arithmetic itself (rounding) is not modelled - only its consistency with the conversion rule and the NaN rule"),
 "C03": dict(engine="C", cat="exploration", design="6/C03",
   tech="TLC generates the call matrix from the signature table exported from the real stdlib; every call runs through the real compiler and runtime in a worker process; TLC checks each recorded result with InKind against the compiler's own type for that call and against return_kind",
   text="GenCalls.tla reads the signature table of all 200 stdlib functions (exported by the harness from Function::parameters/return_kind) and generates 45k call tuples: per function the base call, every candidate of every value kind (valid or invalid, edge values) in every parameter position as literal and as runtime-typed value, every enum variant plus an undeclared one, and pairwise edge values for every pair of parameters. Each tuple is rendered to a VRL call, compiled (as an infallible statement, else under `ok, err =`), and run. TLC checks: K1 an Ok value belongs (spec's InKind) to the TypeDef the real compiler computed for that call expression (hook H2) and its kind is among the documented return kinds; K2 a call typed infallible returned Ok; K3 a wrong-typed runtime argument produced an error or a well-typed value.",
   note="trusted: the harness' VRL rendering of argument values; H2's record of the call expression's type; one/two-factor coverage of the argument space, not the full product"),
 "C05": dict(engine="C", cat="exploration", design="6/C05",
   tech="same call matrix as C03, each call in a killable worker process with a 10 s deadline; TLC checks the termination protocol (every call start has a call end; a `timeout` record is a call without end)",
   text="Every call of the C03 matrix (45k tuples over all 200 functions, with extreme integers MIN/MAX/-1, infinities, empty and hostile strings in every position and pairwise) runs in a worker process under a 10 s deadline and a 6 GB address-space limit; a worker that does not answer is killed and recorded as `timeout`, one that dies as `died`. TLC requires every call to have ended.",
   note="trusted: 10 s is two orders of magnitude above the slowest legitimate call observed (evidence: calls_slower_than_1s); output-size proportionality is not measured separately - unbounded growth shows up as timeout or worker death"),
 "C33": dict(engine="C", cat="exploration", design="6/C33",
   tech="source texts built from a TLC-defined token alphabet and token-level mutations of the repository's .vrl programs and stdlib examples; the real compiler's diagnostics are inspected and rendered in worker processes; TLC evaluates label well-formedness and rendering outcomes",
   text="GenTokens.tla defines one representative token per lexer class plus multi-byte and escape-heavy variants. The driver builds every sequence of <= 2 tokens, seeded sequences of 3-7 tokens (with and without separating spaces), the 314 .vrl test programs and ~600 stdlib examples, and seeded token mutations of those (delete, duplicate, swap, replace, inject multi-byte identifiers / fields / strings) - 46k texts at the quick tier. Each is compiled by the real compiler in a killable worker; every diagnostic (errors and warnings) is inspected: TLC requires 0 <= start <= end <= len and both ends on UTF-8 character boundaries for every label, and that Formatter::to_string (plain and coloured) returned.",
   note="trusted: str::is_char_boundary as the definition of a character boundary; the worker protocol; sampling beyond 2-token sequences"),
 "C04": dict(engine="C", cat="exploration", design="5/C04",
   tech="three TLC-defined input spaces executed under catch_unwind in killable worker processes (source texts from the token alphabet and corpus mutations; the stdlib call matrix; TLC-generated core programs x events); a `panic` record is explained by no action of any trace specification",
   text="Everything the other engines execute is run so that a panic becomes a recorded event instead of killing the check: (1) the 46k source texts of C33 are compiled, all their diagnostics rendered (plain and coloured) and accepted programs run; (2) the 45k call tuples of the C03 matrix (all 200 functions, edge and wrong-typed arguments, literal and runtime-typed) are compiled and run; (3) the TLC-generated programs of the C08/C09/C13/C15 grammars run on every event with hooks on. TraceDiag / TraceCalls / TraceCore have no action that accepts a panic, so each one is a C04 witness naming where it happened.",
   note="trusted: catch_unwind + process isolation see every panic/abort; release-mode build (debug-only overflow checks are not exercised); memory/stack exhaustion out of scope"),
 "C24": dict(engine="C", cat="exploration", design="6/C24",
   tech="flat string objects / string lists over a TLC-defined hostile alphabet run through the real encode->parse pairs; TLC evaluates parse(encode(o)) = o on the recorded results and names the circumstance (backslash/newline, delimiter/quote/whitespace)",
   text="GenLaws.tla defines the key/value alphabet {a, space, \", =, \\, newline, tab, :, ',', e-acute}. Every non-empty string of length <= 2 (thorough 3) plus seeded longer ones is used as key and value of one- and two-field objects, sent through encode_key_value -> parse_key_value with default delimiters and with ':' / ',', through encode_logfmt -> parse_logfmt, and lists of such strings through encode_csv -> parse_csv. TLC checks that the parsed object/list equals the original (same keys, same string values).",
   note="trusted: the harness' eval job; only string-valued flat objects as the property states"),
 "C25": dict(engine="C", cat="exploration", design="6/C25",
   tech="paired conversions run through the real functions; TLC evaluates g(f(x)) = x on the recorded results and checks format_int against an independent long-division radix model written in TLA+ (FnLaws!FormatRadix)",
   text="format_int/parse_int for bases {2,3,8,10,16,35,36} (thorough: all 2-36) x edge integers (0, +-1, 2^31, 2^53+1, 2^62, MIN, MIN+1, MAX, 10^18) and seeded random i64: the digits must equal FormatRadix (sign + repeated long division of the magnitude's limbs by the base, computed by TLC) and parse_int must restore the limbs; ip_aton/ip_ntoa, ip_pton/ip_ntop (IPv4 and IPv6), ip_to_ipv6/ipv6_to_ipv4; flatten/unflatten and to_entries/from_entries on seeded nested objects without separators in keys or empty containers; to_unix_timestamp/from_unix_timestamp for every unit and format_timestamp/parse_timestamp for full-precision formats on instants across the representable range (relational only).",
   note="trusted: the harness' eval job; timestamps are compared relationally (no calendar model)"),
 "C28": dict(engine="C", cat="exploration", design="6/C28",
   tech="law instances over TLC-defined Unicode alphabets evaluated by the real functions; each law is a TLA+ predicate over code-point sequences / small collections (FnLaws.tla)",
   text="Strings over {a, B, sharp-s, dotted-I, space, tab, newline, ',', e-acute, emoji, nbsp, em-space, _, -} up to length 2 (thorough 3) plus seeded longer ones; arrays with duplicates, nulls and empties; objects with multi-byte, spaced and empty keys. Laws checked by TLC on the real results: idempotence of upcase/downcase/camelcase/snakecase/kebabcase/pascalcase/screamingsnakecase/strip_whitespace; strip_whitespace = input minus maximal leading/trailing White_Space runs; join(split(s,d),d) = s; starts_with/ends_with/contains <=> prefix/suffix/infix of the code-point sequences; truncate length bound, prefix property and identity for short inputs; strlen = number of scalar values; slice = positional sub-sequence incl. negative bounds; unique = first occurrences in order; compact removes exactly null/empty items; keys/values/length agree with the object; merge(a,b) has b's values on shared keys and the union of keys.",
   note="trusted: the harness' code-point extraction (Rust chars()); White_Space restricted to the alphabet's characters"),
 "C36": dict(engine="C", cat="exploration", design="6/C36",
   tech="Tz.tla states the runtime's frame condition (which functions read the configured timezone and when a call is pinned); time expressions x formats x instants are evaluated by the real functions under six configured timezones and TLC requires every call classified insensitive to agree across them",
   text="Tz.tla lists the only readers of Context::timezone (parse_timestamp without a timezone argument, the syslog / access-log parsers on inputs without an offset, get_timezone_name) and classifies a call as zone-sensitive only if it is one of them and neither a `timezone:` argument, an offset in the format (%z %:z %+), nor an offset in the input pins the zone. 930 expressions - format_timestamp / parse_timestamp over 8 formats with and without explicit offsets and timezone arguments, unix-timestamp conversions for every unit, to_string/to_int/to_float/encode_json of timestamps, the log parsers, expressions that do not touch time - on 10 instants incl. DST gaps and overlaps are each evaluated under UTC, Asia/Kolkata, America/New_York, Europe/London, Pacific/Chatham and local; TLC checks that every insensitive one yields identical results (the 32 sensitive ones are observed to really differ, so the classification is not vacuous).",
   note="trusted: the TzReaders set (from reading the tree; a NEW reader of the timezone is exactly what the check is meant to expose); `%s` is conservatively treated as unpinned"),
 "C30": dict(engine="C", cat="exploration", design="6/C30",
   tech="DdSearch.tla generates query texts from the search grammar; the real parser / to_lucene / parser chain is recorded and TLC checks parse(to_lucene(parse q)) = parse q, naming the circumstance (escape kind, term with space, double negation)",
   text="DdSearch.tla builds query texts in TLA+: 46 leaves covering terms, quoted phrases, prefix and infix wildcards, attributes (incl. nested paths), tags, reserved fields, comparisons, inclusive/exclusive/open ranges, _exists_/_missing_, match-all, escaped specials (: space - * ( ) quote) and both negation forms; every AND / OR / juxtaposition / group / negated-group of two leaves (6.6k texts) and two levels of nesting over representatives. Each text the real parser accepts is rendered with to_lucene and parsed again; TLC requires the second parse to succeed with an equal tree (PartialEq and Debug rendering).",
   note="trusted: QueryNode's PartialEq / Debug as the notion of 'same tree'"),
 "C31": dict(engine="C", cat="model_checking", design="6/C31",
   tech="DdSearch.tla states the compositional meaning of queries; the real match_datadog_query results for A, B and their combinations on a vocabulary of events are checked by TLC against the identities (NOT, AND, OR, juxtaposition, grouping, nesting, ranges = both bounds)",
   text="For pairs of leaf queries (quick: 500 seeded pairs, thorough: all 2116) and 8 events over the vocabulary {message, @a, @b.c, @n, tags k, service, host, status, source} with string, numeric, array-valued and absent fields, the harness evaluates the real match_datadog_query for A, B, A AND B, A OR B, NOT (A), -(A), (A), (A) (B) and NOT ((A) AND (B)) OR (B); TLC checks each against the logical combination of the real leaf results. Ranges [lo TO hi], {lo TO hi} and open ends on attribute, tag and reserved fields are checked against the conjunction of their two comparison queries.",
   note="trusted: leaf semantics are the real matcher's (differences between leaves and the documented search semantics would be divergences, not judged); the finite vocabulary"),
 "C32": dict(engine="C", cat="exploration", design="6/C32",
   tech="Grok.tla generates the cases and computes the expected outcome itself (alias-stack expansion for cycles, literal texts, a reference matcher with captures on character sequences); the real parse_groks results are compared by TLC",
   text="(i) all 512 alias digraphs on three aliases: Grok.tla expands the rule's alias depth-first with an explicit alias stack - compilation must be rejected iff the expansion meets an alias already on the stack, otherwise the rule must match the expansion's text; (ii) literal rules of <= 2 (thorough 3) characters over letters, digits, space and escaped regex metacharacters must match their own unescaped text and none of the other texts; (iii) rules `%{P1:f} %{P2:g}` with P1 in {word, integer, notSpace}, P2 in {word, integer, notSpace, data} on all inputs of <= 4 (thorough 5) characters over {a,Z,1,2,-,_,space,.}: match / no match and the captured values (strings, integers after the integer filter) must equal the reference matcher's.",
   note="trusted: the reference matcher's reading of the four patterns (\\w+, [-+]?\\d+, \\S+, .*?); an empty capture may be omitted from the result"),
}

NA = {
 "C21": "JSON text/float round-trip fidelity: TLC has no floats or string indexing; a TLA+ transcription of serde_json/Ryu would be a second implementation, not a model (DESIGN 7)",
 "C22": "bit-level third-party codecs (gzip, zlib, zstd, snappy, lz4, charset, punycode...): nothing to model but equality of bytes (DESIGN 7)",
 "C23": "cipher correctness is outside what a state-machine specification can say; only decrypt(encrypt(p)) = p (DESIGN 7)",
 "C26": "wire-format fidelity of prost-reflect against descriptor sets; no state or transitions to specify (DESIGN 7)",
 "C27": "needs reference implementations of MD5/SHA/CRC/xxHash...; transcribing them into TLA+ over 32-bit integers is neither a model nor tractable for TLC (DESIGN 7)",
 "C29": "floating-point numeric accuracy; TLC has no reals (DESIGN 7)",
 "C35": "text->float/timestamp parsing fidelity (strftime, RFC 3339) with no calendar or float model available (DESIGN 7)",
}


def main():
    checks = []
    for pid in ids:
        if pid not in CHECKS:
            continue
        c = CHECKS[pid]
        checks.append({
            "property_id": pid,
            "quick_cmd": f"./check {pid} --tier quick",
            "thorough_cmd": f"./check {pid} --tier thorough",
            "evidence_file": f"/verif/evidence/{pid}.json",
            "replay_cmd_template": f"./check {pid} --replay {{path}}",
            "engine": c["engine"],
            "level_claimed": {"category": c["cat"], "text": c["text"], "design_ref": c["design"]},
            "level_note": c.get("note", A_NOTE),
            "technique": c["tech"],
        })
    na = []
    for pid in ids:
        if pid in CHECKS:
            continue
        na.append({"property_id": pid, "reason": NA.get(pid, "check not built yet (planned, see DESIGN.md); not claimed until its check exists")})
    hooks = subprocess.run(["git", "-C", "/repo", "log", "--format=%h %s"], stdout=subprocess.PIPE, text=True).stdout.splitlines()
    hook_commits = [l.split()[0] for l in hooks if "verif" in l.lower() and not l.split(" ", 1)[1].startswith("fix:")]
    m = {
        "version": 1,
        "setup_cmd": "./setup.sh",
        "hooks": {
            "guard": "--cfg vrl_verif",
            "enable": "the harness crate (/verif/harness, path dependency on /repo) sets rustflags = [\"--cfg\",\"vrl_verif\",\"--check-cfg\",\"cfg(vrl_verif)\"] in harness/.cargo/config.toml; every check runs `cargo build --release --offline` there first, which rebuilds vrl from /repo's working tree with the hooks on",
            "baseline_off_cmd": "cd /repo && (cargo nextest run --workspace --no-fail-fast --tool-config-file pb:/w/lib/nextest.toml --profile pb --test-threads 8 --offline || cargo test --workspace --no-fail-fast --offline)",
            "source_commits": hook_commits,
            "add_only": True,
        },
        "engines": [
            {"name": "A", "path": "/verif/spec/VrlCore.tla /verif/spec/TraceCore.tla /verif/spec/GenCore.tla /verif/lib/engine_a.py /verif/harness/src/core.rs",
             "serves_properties": [p for p in ids if CHECKS.get(p, {}).get("engine") == "A"],
             "kind_free_text": "language core: TLC generates programs from per-property focus grammars, the Rust harness replays them through the real compiler/interpreter with trace hooks, TLC validates every recorded event against the abstract machine"},
            {"name": "B", "path": "/verif/spec/Values.tla /verif/spec/Kinds.tla /verif/spec/GenValues.tla /verif/spec/GenKinds.tla /verif/spec/TraceValues.tla /verif/spec/TraceKinds.tla /verif/lib/engine_b.py /verif/harness/src/algebra.rs",
             "serves_properties": [p for p in ids if CHECKS.get(p, {}).get("engine") == "B"],
             "kind_free_text": "values, kinds and paths: universes defined in TLA+, real operations applied by the harness, laws / soundness predicates evaluated by TLC on the real results"},
            {"name": "C", "path": "/verif/spec/Ops.tla /verif/spec/GenOps.tla /verif/spec/TraceOps.tla /verif/lib/engine_c.py /verif/harness/src/algebra.rs",
             "serves_properties": [p for p in ids if CHECKS.get(p, {}).get("engine") == "C"],
             "kind_free_text": "operators, function contracts and laws, search/grok, diagnostics, timezones: TLC-defined input spaces, real calls recorded by the harness, contract/law predicates evaluated by TLC"},
        ],
        "checks": checks,
        "notes": "exit codes: 0 held (KNOWN-FINDING lines for listed findings), 1 VIOLATION, 2 tool trouble. known findings: /verif/known_findings.json",
        "not_applicable": na,
    }
    with open(os.path.join(VERIF, "MANIFEST.json"), "w") as f:
        json.dump(m, f, indent=1)
        f.write("\n")
    try:
        import jsonschema
        jsonschema.validate(m, json.load(open("/root/.vp/MANIFEST.schema.json")))
        print("manifest valid;", len(checks), "checks,", len(na), "not claimed")
    except ImportError:
        print("manifest written (jsonschema not available to validate)")


main()
