"""Engine A - the language core.  TLC generates programs (GenCore), the harness replays them
through the real compiler/interpreter with hooks on, TLC validates the recorded executions
against the abstract machine (TraceCore)."""
import json, os, time
from common import *

LEVEL = {"C17": "fault_enumeration", "C06": "model_checking", "C07": "model_checking", "C08": "model_checking", "C09": "model_checking",
         "C13": "model_checking", "C01": "model_checking", "C02": "model_checking", "C12": "model_checking",
         "C16": "model_checking"}

# (focus, tier) -> maximum number of generated cases replayed (seeded sample beyond it)
SAMPLE_CAP = {("C01", "quick"): 3500, ("C01", "thorough"): 36000}
# programs up to this many statements are always kept when sampling
SHORT_LEN = {"C01": 5}

FOCUS = {"C02": "C01", "C12": "C01"}

# which TraceCore counter says "the property's antecedent really occurred" for each property
NONTRIVIAL = {"C01": "kind_checks", "C12": "const_checks", "C02": "err_exits"}

TRACE_CFG = "SPECIFICATION TraceSpec\nINVARIANT Report\nPOSTCONDITION TraceAccepted\nCHECK_DEADLOCK FALSE\n"


def generate(focus, tier, wd, gen_spec="GenCore.tla", consts=""):
    cfg = f'SPECIFICATION Spec\nCONSTANTS Focus = "{focus}" Tier = "{tier}" {consts}\nINVARIANT Emit\nCHECK_DEADLOCK FALSE\n'
    out = tlc(gen_spec, cfg, wd, workers=min(8, NCPU), name=f"Gen_{focus}", timeout=1800)
    cases = printed(out, "REPLAY")
    events = printed(out, "EVENTS")
    ext = printed(out, "EXTCASES")
    rosets = printed(out, "ROSETS")
    if rosets:
        cases = [dict(c, ro=ro) for c in cases for ro in rosets[0]]
    faults = printed(out, "FAULTS")
    if faults:
        with open(os.path.join(wd, "faults.ndjson"), "w") as f:
            for sch in faults[0]:
                f.write(json.dumps(sorted(sch)) + "\n")
    if ext:
        cases = [dict(c, ext=x["ext"], extname=x["extname"], events=x["events"]) for c in cases for x in ext[0]]
    st, tr = tlc_stats(out)
    if not cases:
        raise ToolError(f"generator produced no programs for {focus}:\n{out[-2000:]}")
    # deterministic order regardless of TLC worker scheduling
    cases.sort(key=lambda c: json.dumps(c, sort_keys=True))
    for i, c in enumerate(cases):
        c["id"] = i + 1
    return cases, (events[0] if events else None), st, tr


def replay(cases, events, wd, shards, extra=None, sub="core"):
    cpath = os.path.join(wd, "cases.ndjson")
    with open(cpath, "w") as f:
        for c in cases:
            f.write(json.dumps(c) + "\n")
    cmd = [VH, sub, "--cases", cpath, "--out", os.path.join(wd, "tr"), "--shards", str(shards)]
    if events:
        epath = os.path.join(wd, "events.ndjson")
        with open(epath, "w") as f:
            for e in events:
                f.write(json.dumps(e) + "\n")
        cmd += ["--events", epath]
    run(cmd + (extra or []), cwd=wd, timeout=3600)
    return [os.path.join(wd, f"tr.{i}.ndjson") for i in range(shards)]


def validate(traces, wd, spec="TraceCore.tla", cfg=TRACE_CFG):
    def one(path):
        if os.path.getsize(path) == 0:
            return None
        name = "Trace_" + os.path.basename(path).replace(".", "_")
        out = tlc(spec, cfg, wd, workers=1, env={"TRACE": path}, name=name, timeout=9000, extra=[])
        res = printed(out, "RESULT")
        if not res:
            raise ToolError(f"trace {path} was not consumed by {spec} (unexplained trace):\n" + out[-2500:])
        st, tr = tlc_stats(out)
        r = res[-1]
        r["_states"], r["_transitions"], r["_file"] = st, tr, path
        return r
    return [r for r in pool_map(one, traces, workers=NCPU) if r]


def aggregate(results):
    agg = {"viols": [], "divs": [], "cnt": {}, "states": 0, "transitions": 0, "consumed": 0}
    for r in results:
        for v in r.get("viols", []):
            v["_file"] = r["_file"]
            agg["viols"].append(v)
        for d in r.get("divs", []):
            d["_file"] = r["_file"]
            agg["divs"].append(d)
        for k, n in r.get("cnt", {}).items():
            agg["cnt"][k] = agg["cnt"].get(k, 0) + n
        agg["states"] += r["_states"]
        agg["transitions"] += r["_transitions"]
        agg["consumed"] += r.get("consumed", 0)
    return agg


def find_run(path, line):
    """The prog event and the run (start..end) containing 1-based `line` of a trace file."""
    prog, runstart, lines = None, None, []
    with open(path) as f:
        all_lines = f.readlines()
    for i, l in enumerate(all_lines, 1):
        if l.startswith('{"e":"prog"'):
            if i <= line:
                prog = l
        if l.startswith('{"e":"start"') and i <= line:
            runstart = i
    if runstart is None:
        return prog, []
    for l in all_lines[runstart - 1:]:
        lines.append(l)
        if l.startswith('{"e":"end"') or l.startswith('{"e":"panic"'):
            break
    return prog, lines


def dump_findings(agg, wd):
    """Debugging aid: every witness/divergence with the source of its program and its run."""
    seen, out = set(), []
    for v in agg["viols"] + agg["divs"]:
        s = sig_of(v)
        if s in seen:
            continue
        seen.add(s)
        progl, lines = find_run(v["_file"], v["line"])
        p = json.loads(progl) if progl else {}
        out.append({"sig": s, "what": v.get("what"), "src": p.get("src"), "line": v["line"], "file": v["_file"],
                    "start": json.loads(lines[0]) if lines else None, "end": json.loads(lines[-1]) if lines else None})
    write_json(os.path.join(wd, "findings.json"), out)


MC_FOCUSES = {"C06", "C07", "C08", "C09", "C13"}
MC_CFG = ('SPECIFICATION MCSpec\nCONSTANTS Focus = "%s" Tier = "%s"\nINVARIANT Progress\nINVARIANT ControlIsFinal\n'
          'INVARIANT ParamsScoped\nINVARIANT Predict\nCHECK_DEADLOCK FALSE\n')


def norm(x):
    """TLC prints an empty record as []; the harness prints {}."""
    if isinstance(x, dict):
        d = {k: norm(v) for k, v in x.items()}
        if d.get("t") == "obj" and d.get("m") == []:
            d["m"] = {}
        return d
    if isinstance(x, list):
        return [norm(v) for v in x]
    return x


def model_phase(focus, tier, wd, cases, traces):
    """Model-check the executable machine (MCCore) on the focus grammar and compare every finished behaviour's
    prediction with what the real interpreter did on the same program and event (spec -> impl)."""
    out = tlc("MCCore.tla", MC_CFG % (focus, tier), wd, workers=min(8, NCPU), name=f"MC_{focus}", timeout=3000, allow_error=True)
    if "No error has been found" not in out:
        import re as _re
        m = _re.search(r"Error:.*(?:\n.*){0,6}", out)
        raise ToolError(f"MCCore.tla ({focus}): a model-level invariant failed or TLC stopped: " + (m.group(0)[:1200] if m else out[-800:]))
    st, tr = tlc_stats(out)
    preds = printed(out, "PREDICT")
    by_ast = {json.dumps(norm(c["ast"]), sort_keys=True): c["id"] for c in cases}
    real = {}
    for t in traces:
        pid, n = None, 0
        with open(t) as f:
            for l in f:
                if l.startswith('{"e":"prog"'):
                    pid, n = json.loads(l)["id"], 0
                elif l.startswith('{"e":"reject"'):
                    pid = None
                elif l.startswith('{"e":"end"') and pid is not None:
                    n += 1
                    real[(pid, n)] = json.loads(l)
    res = {"behaviours": len(preds), "validated": 0, "unmodelled": 0, "not_accepted_by_compiler": 0, "mismatches": 0, "mismatch_samples": []}
    for p in preds:
        cid = by_ast.get(json.dumps(norm(p["ast"]), sort_keys=True))
        r = real.get((cid, p["evt"]))
        if r is None:
            res["not_accepted_by_compiler"] += 1
            continue
        if p["unmodelled"]:
            res["unmodelled"] += 1
            continue
        want, got = norm(p["fin"]), norm(r["res"])
        same = want["r"] == got["r"] and (want["r"] != "ok" or want["v"] == got["v"]) and \
            (want["r"] != "abort" or (want["hm"] == got["hm"] and (not want["hm"] or want["m"] == got["m"])))
        same = same and norm(p["ev"]) == norm(r["ev"]) and norm(p["meta"]) == norm(r["meta"])
        pv = norm(p["vars"]) if p["vars"] != [] else {}
        same = same and pv == norm(r["vars"])
        if same:
            res["validated"] += 1
        else:
            res["mismatches"] += 1
            if len(res["mismatch_samples"]) < 5:
                res["mismatch_samples"].append({"case": cid, "evt": p["evt"], "predicted": {"fin": want, "vars": pv, "ev": norm(p["ev"])},
                                                "real": {"res": got, "vars": norm(r["vars"]), "ev": norm(r["ev"])}})
    return res, st, tr


def check(prop, tier, seed, focus=None, props_of_interest=None):
    t0 = time.time()
    focus = focus or FOCUS.get(prop, prop)
    wd = workdir(f"{prop}_{tier}")
    build_harness()
    cases, events, gst, gtr = generate(focus, tier, wd)
    total_generated = len(cases)
    cap = SAMPLE_CAP.get((focus, tier))
    sampled = False
    if cap and len(cases) > cap:
        import random
        rnd = random.Random(seed)
        # keep every short program, sample the rest
        cases.sort(key=lambda c: (len(c["ast"]), c["id"]))
        # deterministic core: every short program, and every longer one whose "user" statement is the
        # neutral `z = null` (so every combination of setters is observed); the rest is sampled
        def core(c):
            a = c["ast"]
            if len(a) <= SHORT_LEN.get(focus, 0):
                return True
            u = a[-2] if len(a) >= 2 else {}
            return len(a) <= 6 and u.get("k") == "asg" and u.get("e", {}).get("k") == "lit" and u["e"]["v"].get("t") == "null"
        short = [c for c in cases if core(c)]
        rest = [c for c in cases if not core(c)]
        cases = short + rnd.sample(rest, max(0, min(len(rest), cap - len(short))))
        sampled = True
    log(f"[{prop}] generated {total_generated} programs, replaying {len(cases)} x {len(events) if events else 'own'} events ({time.time()-t0:.0f}s)")
    # one TLC run per shard: keep every trace short (TLC's trace validation slows down and its 2 GB heap fills on traces of
    # several hundred thousand events), so big runs get more shards than cores and the pool works through them
    shards = max(1, min(NCPU * max(1, len(cases) // 12000), len(cases) // 8))
    fpath = os.path.join(wd, "faults.ndjson")
    traces = replay(cases, events, wd, shards, extra=(["--faults", fpath] if os.path.exists(fpath) else None))
    log(f"[{prop}] replayed ({time.time()-t0:.0f}s)")
    agg = aggregate(validate(traces, wd))
    log(f"[{prop}] validated ({time.time()-t0:.0f}s)")
    model = None
    if focus in MC_FOCUSES and not sampled:
        model, mst, mtr = model_phase(focus, tier, wd, cases, traces)
        gst += mst
        gtr += mtr
        log(f"[{prop}] model-checked, predictions compared: {model['validated']} validated, {model['mismatches']} mismatches, "
            f"{model['unmodelled']} unmodelled ({time.time()-t0:.0f}s)")
    dump_findings(agg, wd)
    mine = [v for v in agg["viols"] if v["prop"] == prop]
    others = {}
    for v in agg["viols"]:
        if v["prop"] != prop:
            others[sig_of(v)] = others.get(sig_of(v), 0) + 1
    rejected = sum(1 for t in traces for l in open(t) if l.startswith('{"e":"reject"'))
    cnt = agg["cnt"]
    samples = []
    for t in traces:
        with open(t) as f:
            for l in f:
                if l.startswith('{"e":"prog"') and len(samples) < 5:
                    samples.append({"program": json.loads(l)["src"]})
        if len(samples) >= 5:
            break

    def replay_writer(v):
        progl, lines = find_run(v["_file"], v["line"])
        p = json.loads(progl) if progl else {}
        case = next((c for c in cases if c["id"] == p.get("id")), None)
        return {"engine": "A", "focus": focus, "tier": tier, "source": p.get("src"), "case": case,
                "trace": [json.loads(x) for x in lines]}

    coverage = {
        "states": gst + agg["states"], "transitions": gtr + agg["transitions"],
        "traces_validated_against_impl": cnt.get("runs", 0) - cnt.get("skipped_runs", 0),
        "samples": samples,
        "evaluations": cnt.get("runs", 0),
        "distinct_nontrivial": cnt.get(NONTRIVIAL.get(prop, prop), 0),
        "rule": f"programs enumerated exhaustively by TLC from the {focus} focus grammar of GenCore.tla ({tier} bounds) x the "
                f"event universe; a run is non-trivial when the property's antecedent occurred in it (counted by TraceCore: "
                f"cnt.{prop}); distinct because every (program, event) pair is generated once",
        "programs_generated": total_generated, "programs_replayed": len(cases), "programs_rejected_by_compiler": rejected,
        "events_validated": cnt.get("events", 0), "runs_abandoned_after_mismatch": cnt.get("skipped_runs", 0),
        "kind_membership_checks": cnt.get("kind_checks", 0), "constant_checks": cnt.get("const_checks", 0),
        "generator_states": gst, "trace_states": agg["states"],
        "divergences": len(agg["divs"]), "divergence_samples": agg["divs"][:5],
        "witnesses_for_other_properties": others,
        "exhaustive": not sampled,
    }
    if model:
        coverage["model_checked_behaviours"] = model
        coverage["rule"] += ("; the same programs x events are also EXECUTED by the model (MCCore.tla, invariants Progress / ControlIsFinal / "
                             "ParamsScoped on every state) and each finished behaviour's predicted result, event, metadata and variables are "
                             "compared with the real run (model_checked_behaviours)")
    assumptions = ["the harness renders the TLC-generated AST to source and maps compiler records to nodes by span",
                   "hook H1 brackets every Expr::resolve; the logging target sees every target operation",
                   "bounded grammar: see GenCore.tla for the atom sets and nesting of this focus and tier"]
    return verdict(prop, tier, seed, LEVEL.get(prop, "model_checking"), coverage, mine, assumptions, t0, replay_writer)


def check_unused(prop, tier, seed):
    """C34: unused-result warnings only flag removable code (TraceUnused.tla decides)."""
    t0 = time.time()
    wd = workdir(f"{prop}_{tier}")
    build_harness()
    cases, events, gst, gtr = generate("C34", tier, wd)
    shards = max(1, min(NCPU, len(cases) // 8))
    traces = replay(cases, events, wd, shards, sub="unused")
    agg = aggregate(validate(traces, wd, spec="TraceUnused.tla"))
    cnt = agg["cnt"]
    samples = []
    for t in traces:
        with open(t) as f:
            for l in f:
                if l.startswith('{"e":"unused"') and len(samples) < 5:
                    j = json.loads(l)
                    samples.append({"program": j["src"], "warning": j["msg"], "edited": j["edited"], "events": len(j["runs"])})

    def replay_writer(v):
        with open(v["_file"]) as f:
            line = f.readlines()[v["line"] - 1]
        return {"engine": "A/unused", "record": json.loads(line)}

    nruns = (cnt.get("judged", 0)) * (len(events) if events else 1)
    coverage = {
        "states": gst + agg["states"], "transitions": gtr + agg["transitions"],
        "traces_validated_against_impl": nruns * 2, "samples": samples,
        "evaluations": cnt.get("judged", 0) + cnt.get("unjudged", 0) + cnt.get("nowarn", 0),
        "distinct_nontrivial": cnt.get("judged", 0),
        "rule": "programs = prelude; one (thorough: two) discarded statement from the C34 grammar of GenCore.tla (literals, "
                "objects, arrays, pure calls, operators, blocks, ifs, closures - with and without assignments / del hidden "
                "inside), also nested in a block; observation. Non-trivial = the real compiler issued an unused-result warning "
                "covering the whole statement and the statement-deleted program compiled (judged)",
        "programs_generated": len(cases), "warnings_judged": cnt.get("judged", 0),
        "warnings_unjudged": cnt.get("unjudged", 0), "programs_without_warning": cnt.get("nowarn", 0),
        "judged_removable": cnt.get("removable", 0), "judged_not_removable": cnt.get("not_removable", 0),
        "programs_rejected_by_compiler": cnt.get("reject", 0), "exhaustive": True,
    }
    assumptions = ["a warning is judged only when its label span is exactly one root statement of the generated source",
                   "fallibility of the statement is the real compiler's own (hook H2 record of the statement node)"]
    mine = [v for v in agg["viols"] if v["prop"] == prop]
    write_json(os.path.join(wd, "findings.json"), [{"sig": sig_of(v), "what": v.get("what")} for v in agg["viols"]])
    return verdict(prop, tier, seed, "model_checking", coverage, mine, assumptions, t0, replay_writer)


RT_CFG = """SPECIFICATION Spec
CONSTANTS Threads = {%s} Inputs = {1, 2} PerThread = 2 Shared = %s NoClear = %s
INVARIANT Deterministic
PROPERTY Frame
CHECK_DEADLOCK FALSE
"""


def check_threads(prop, tier, seed):
    """C14: design-level model (Runtime.tla, all interleavings) + conformance of the real runtime:
    compile twice, fresh vs cleared runtime, concurrent threads sharing one Program."""
    t0 = time.time()
    wd = workdir(f"{prop}_{tier}")
    build_harness()
    thr = "t1, t2, t3"
    out = tlc("Runtime.tla", RT_CFG % (thr, "FALSE", "FALSE"), wd, workers=min(8, NCPU), name="Runtime_ok", timeout=1800)
    if "No error has been found" not in out:
        raise ToolError("Runtime.tla: the design-level model does not satisfy Deterministic/Frame:\n" + out[-2000:])
    mst, mtr = tlc_stats(out)
    # vacuity guard: each named deviation must break the invariant
    for nm, sh, nc in (("shared", "TRUE", "FALSE"), ("noclear", "FALSE", "TRUE")):
        o = tlc("Runtime.tla", RT_CFG % (thr, sh, nc), wd, workers=4, name="Runtime_" + nm, timeout=600, allow_error=True)
        if "Invariant Deterministic is violated" not in o:
            raise ToolError(f"Runtime.tla: deviation {nm} does not violate Deterministic (vacuous model)")
    # programs: the control-flow, closure and coalescing grammars (+ every stdlib example)
    cases = []
    gst = gtr = 0
    events = None
    for focus in (["C09", "C13", "C08"] if tier == "quick" else ["C09", "C13", "C08", "C06", "C07", "C34"]):
        cs, ev, a, b = generate(focus, tier if focus != "C13" else "quick", wd)
        if focus != "C13":
            events = events or ev
        cases += cs
        gst += a
        gtr += b
    import random
    rnd = random.Random(seed)
    if tier == "quick" and len(cases) > 400:
        cases = rnd.sample(cases, 400)
    for i, c in enumerate(cases):
        c["id"] = i + 1
    log(f"[{prop}] {len(cases)} generated programs + stdlib examples ({time.time()-t0:.0f}s)")
    reps = 3 if tier == "quick" else 20
    traces = replay(cases, events, wd, 2, extra=["--examples", "--threads", "8", "--reps", str(reps)], sub="threads")
    log(f"[{prop}] replayed ({time.time()-t0:.0f}s)")
    # function level: the stdlib call matrix, each call alone vs after the other calls of its function on one thread
    import engine_c
    jobs, nfn, cst, ctr = engine_c.call_matrix(wd, tier, seed)
    byf = {}
    for j in jobs:
        byf.setdefault(j["f"], []).append(j)
    hjobs = [{"worker": "history", "f": f, "calls": cs, "args": [], "ret": [], "src": f} for f, cs in sorted(byf.items())]
    hpath = os.path.join(wd, "history.ndjson")
    with open(hpath, "w") as fh:
        for c in hjobs:
            fh.write(json.dumps(c) + "\n")
    run([VH, "calls", "--cases", hpath, "--out", os.path.join(wd, "hist"), "--shards", str(NCPU), "--deadline-ms", load_scaled(240000)], cwd=wd, timeout=7200)
    htraces = [os.path.join(wd, f"hist.{i}.ndjson") for i in range(NCPU)]
    log(f"[{prop}] call histories done ({time.time()-t0:.0f}s)")
    agg = aggregate(validate(traces + htraces, wd))
    cnt = agg["cnt"]
    dump_findings_simple(agg, wd)
    conc = 0
    nprog = 0
    samples = []
    for t in traces:
        with open(t) as f:
            for l in f:
                if l.startswith('{"e":"detcmp"'):
                    j = json.loads(l)
                    nprog += 1
                    conc += j.get("concurrent_runs", 0)
                    if len(samples) < 4 and j.get("accepted"):
                        samples.append({"program": j["src"], "threads": j.get("threads"), "concurrent_runs": j.get("concurrent_runs"),
                                        "distinct_outcomes_per_event": [len(p["conc"]) for p in j["per_event"]]})

    def replay_writer(v):
        with open(v["_file"]) as f:
            line = f.readlines()[v["line"] - 1]
        return {"engine": "A/threads", "record": json.loads(line)}

    coverage = {
        "states": mst + gst + agg["states"], "transitions": mtr + gtr + agg["transitions"],
        "traces_validated_against_impl": cnt.get("runs", 0) - cnt.get("skipped_runs", 0),
        "samples": samples, "evaluations": conc, "distinct_nontrivial": nprog,
        "rule": "Runtime.tla: all interleavings of 3 threads x 2 events each over a shared immutable program (exhaustive). "
                "Conformance: every program (TLC-generated from the C08/C09/C13 grammars + every stdlib example without "
                "nondeterministic calls) is compiled twice, run on fresh runtimes, on one runtime cleared between events "
                "in two orders, and by 8 threads sharing the Program (rotated event orders, seeded yields); a program is "
                "one non-trivial case; real OS schedules are sampled, not enumerated. Function level: every call tuple of the stdlib "
                "matrix (GenCalls.tla) is evaluated alone on a fresh thread and again after all other calls of its function on one thread, "
                "forwards and backwards (cnt.C14 counts those calls)",
        "stdlib_calls_checked_for_history_independence": cnt.get("C14", 0),
        "model_states": mst, "programs": nprog, "concurrent_runs": conc, "repetitions_per_thread": reps,
        "exhaustive": False,
    }
    assumptions = ["real thread schedules are sampled (no loom/shuttle instrumentation inside vrl); the exhaustive part is the model's",
                   "functions now, random_*, uuid_v4/v7, get_hostname, get_env_var, dns_lookup, reverse_dns, http_request, get_timezone_name are exempt"]
    mine = [v for v in agg["viols"] if v["prop"] == prop]
    return verdict(prop, tier, seed, "model_checking", coverage, mine, assumptions, t0, replay_writer)


def dump_findings_simple(agg, wd):
    write_json(os.path.join(wd, "findings.json"), [{"sig": sig_of(v), "what": v.get("what"), "line": v.get("line"), "file": v.get("_file")} for v in agg["viols"]])
