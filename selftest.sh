#!/bin/sh
# Demonstrates the binding of the specifications to the recorded executions (DESIGN 3.8): corrupts accepted traces and shows that
# the trace specifications notice. Writes binding_selftest.json. Not part of the per-property checks.
cd "$(dirname "$0")" && exec python3 lib/selftest.py
