#!/bin/sh
# MANIFEST.setup_cmd: build the harness offline against /repo's working tree, parse all specs.
set -e
cd "$(dirname "$0")"
export CARGO_NET_OFFLINE=true
cp /repo/Cargo.lock harness/Cargo.lock
(cd harness && cargo build --release --offline 2>&1 | tail -3)
for f in spec/*.tla; do
  (cd spec && tla-sany "$(basename "$f")" >/dev/null 2>&1) || { echo "SANY failed: $f"; exit 1; }
done
echo "setup ok"
