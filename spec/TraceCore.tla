----------------------------- MODULE TraceCore -----------------------------
(***************************************************************************)
(* Trace specification for the language core: validates executions that    *)
(* were recorded from the REAL compiler and interpreter (hooks H1/H2 and    *)
(* the harness' logging target) against the abstract machine of VrlCore.   *)
(*                                                                         *)
(* One ndjson file holds many runs:                                        *)
(*    prog   the (TLC-generated) program, annotated with what the real     *)
(*           compiler computed per node (kind, fallibility, constant),     *)
(*           ProgramInfo, final type info, read-only configuration         *)
(*    start  event + metadata the run starts from                          *)
(*    T      one target operation (get / ins / rem), possibly faulted      *)
(*    enter / exit    one Expr::resolve call of the real interpreter       *)
(*    end    Runtime::resolve's result, final event, metadata, variables   *)
(*                                                                         *)
(* Every event is compared with VrlCore!Expect on the current frame.  A    *)
(* mismatch is classified: a *witness* names the property whose rule the   *)
(* real execution broke; anything else is a *divergence* (the model and    *)
(* the code differ outside any listed property - evidence only).  After a  *)
(* mismatch the rest of that run is skipped.  Static facts are checked on  *)
(* every exit: InKind(value, compiler's kind) (C01), errors only where the *)
(* compiler said fallible (C02), constants (C12).                          *)
(***************************************************************************)
EXTENDS VrlCore, Json, IOUtils

Rec == ndJsonDeserialize(IOEnv.TRACE)

VARIABLES l,       \* next event
          k,       \* stack of frames (top = last)
          vars,    \* variable store as last reported by the interpreter
          prog,    \* current program record
          run,     \* current run: [ev, meta, probe]
          mode,    \* "idle" | "run" | "skip"
          viols,   \* witnesses found (sequence)
          divs,    \* divergences found (sequence, capped)
          cnt,     \* counters: [name |-> Nat]
          flags,   \* antecedents seen in the current run (set of strings)
          vtag     \* per variable: how it was last written ("plain" | "index-path" | "field-path" | "closure" | "del" | "dflt")

tvars == <<l, k, vars, prog, run, mode, viols, divs, cnt, flags, vtag>>

Ev == Rec[l]
HasF(r, f) == f \in DOMAIN r

KindStr(n) == CASE n.k = "lit" -> "literal" [] n.k = "noop" -> "noop"
                [] n.k = "var" -> "variable call" [] n.k \in {"q", "qv"} -> "query"
                [] n.k = "group" -> "group" [] n.k = "block" -> "block"
                [] n.k = "arr" -> "array" [] n.k = "obj" -> "object"
                [] n.k = "if" -> "if-statement" [] n.k = "op" -> "operation"
                [] n.k = "not" -> "unary operation" [] n.k \in {"asg", "asg2"} -> "assignment"
                [] n.k = "abort" -> "abort operation" [] n.k = "ret" -> "return"
                [] n.k = "call" -> "function call" [] n.k = "prog" -> "program"

\* short description of a construct for finding signatures
Desc(n) == CASE n.k = "op" -> "op:" \o n.o
             [] n.k = "call" -> "call:" \o n.f
             [] OTHER -> n.k

\* where inside a call frame a control effect got lost: an argument of any function, or the
\* closure body of a given function over a given collection type
DescCtl(f) ==
  LET n == f.n IN
  IF n.k # "call" THEN Desc(n)
  ELSE IF n.cls = "iter" /\ Len(f.acc) > Len(n.a)
       THEN "closure:" \o n.f \o ":" \o (IF IsOk(f.acc[1]) THEN f.acc[1].v.t ELSE "?")
       ELSE "call-argument"

\* description for static findings: operators also say whether the lhs was a compile-time constant
DescSt(n) == IF n.k = "op" /\ "st" \in DOMAIN n.l /\ n.l.st.hc THEN Desc(n) \o "(const-lhs)" ELSE Desc(n)

Top == k[Len(k)]
Pop == SubSeq(k, 1, Len(k) - 1)

Bump(c, name) == [c EXCEPT ![name] = @ + 1]
CntNames == {"runs", "events", "skipped_runs", "rejected", "faultcmps", "kind_checks", "const_checks", "err_exits",
             "C01", "C02", "C14", "C06", "C07", "C08", "C09", "C12", "C13", "C15", "C16", "C17"}

(* ---------- outcome comparison ---------- *)
\* expected outcome x (from Expect) vs recorded outcome y
OutcomeEq(x, y) ==
  /\ x.o = y.o
  /\ CASE x.o \in {"ok", "ret"} -> x.v = y.v
       [] x.o = "abort" -> x.hm = y.hm /\ (x.hm => x.m = y.m)
       [] x.o = "err" -> x.m = y.m

(* ---------- absorbing a child's outcome into its parent frame ---------- *)
Absorb(f, out) ==
  LET n == f.n  acc2 == Append(f.acc, out) IN
  IF n.k = "call" /\ n.cls = "iter" /\ Len(f.acc) >= Len(n.a)
  THEN \* a statement of the closure body finished
       IF out.o = "ret" \/ (IsOk(out) /\ f.j + 1 = Len(n.cl.s))
       THEN [f EXCEPT !.acc = acc2, !.it = @ + 1, !.j = 0, !.vals = Append(@, out.v)]
       ELSE [f EXCEPT !.acc = acc2, !.j = @ + 1]
  ELSE [f EXCEPT !.acc = acc2]

(* ---------- classification of a mismatch (which property's rule broke) ---------- *)
Blame(f) ==
  LET n == f.n  acc == f.acc IN
  IF Len(acc) > 0 /\ Last(acc).o = "ret" /\ n.k # "ret"
    THEN [prop |-> "C06", rule |-> "ReturnNotPropagated", at |-> DescCtl(f)]
  ELSE IF Len(acc) > 0 /\ Last(acc).o = "abort"
    THEN [prop |-> "C07", rule |-> "AbortNotPropagated", at |-> DescCtl(f)]
  ELSE CASE n.k = "op" /\ n.o \in {"or", "and"} -> [prop |-> "C09", rule |-> "ShortCircuit", at |-> Desc(n)]
         [] n.k = "if"                          -> [prop |-> "C09", rule |-> "Conditional", at |-> Desc(n)]
         [] n.k = "op" /\ n.o = "err"           -> [prop |-> "C08", rule |-> "ErrCoalesce", at |-> Desc(n)]
         [] n.k = "asg2"                        -> [prop |-> "C08", rule |-> "InfallibleAssign", at |-> Desc(n)]
         [] n.k = "ret"                         -> [prop |-> "C06", rule |-> "ReturnRaises", at |-> Desc(n)]
         [] n.k = "abort"                       -> [prop |-> "C07", rule |-> "AbortRaises", at |-> Desc(n)]
         [] OTHER                               -> [prop |-> "D", rule |-> "Construct", at |-> Desc(n)]

Note(b, what) == [prop |-> b.prop, rule |-> b.rule, at |-> b.at, what |-> what,
                  prog |-> prog.id, line |-> l]

AddFinding(b, what) ==
  IF b.prop = "D"
  THEN /\ divs' = (IF Len(divs) < 50 THEN Append(divs, Note(b, what)) ELSE divs)
       /\ viols' = viols
  ELSE /\ viols' = Append(viols, Note(b, what))
       /\ divs' = divs

\* abandon the current run after a mismatch
Abandon(b, what) ==
  /\ AddFinding(b, what)
  /\ mode' = "skip"
  /\ k' = <<>>
  /\ cnt' = Bump(Bump(cnt, "events"), "skipped_runs")
  /\ UNCHANGED <<vars, prog, run, flags, vtag>>

NewVars == IF HasF(Ev, "vars") THEN Ev.vars ELSE vars

(* ---------- antecedent flags: in which runs was a property really exercised ---------- *)
ExitFlags(f, out) ==
  LET n == f.n IN
  (IF n.k = "op" /\ n.o \in {"or", "and"} /\ Len(f.acc) = 1 THEN {"C09"} ELSE {})
  \cup (IF n.k = "if" THEN {"C09"} ELSE {})
  \cup (IF n.k = "op" /\ n.o = "err" /\ Len(f.acc) = 2 THEN {"C08"} ELSE {})
  \cup (IF n.k = "asg2" /\ Len(f.acc) = 1 /\ f.acc[1].o = "err" THEN {"C08"} ELSE {})
  \cup (IF out.o = "ret" THEN {"C06"} ELSE {})
  \cup (IF out.o = "abort" THEN {"C07"} ELSE {})
  \cup (IF n.k = "call" /\ HasF(n, "cl") THEN {"C13"} ELSE {})

(* ---------- static facts checked on every exit (do not end the run) ---------- *)
HasStatic(n) == HasF(n, "st")
ChildErr(f) == \E j \in 1..Len(f.acc) : f.acc[j].o = "err"

\* Expression results: reading something absent yields null at run time while its type says
\* `undefined` ("accessing an undefined value upgrades it to null", type_def.rs), so for the value
\* of an *expression* null is a member whenever the kind admits undefined.  (Stored values -
\* fields of the event, elements of collections - are judged by InKind itself, where absence is
\* what `undefined` means.)
InKindExpr(v, kd) == InKind(v, kd) \/ (IsNull(v) /\ AdmitsUndefined(kd))

\* How a variable was last written - lets findings about a stale compile-time type/constant name
\* their cause: written inside a closure body, or modified by `del`.
InClosure == \E j \in 1..(Len(k) - 1) :
               k[j].n.k = "call" /\ HasF(k[j].n, "cl") /\ Len(k[j].acc) >= Len(k[j].n.a)
TagNow == IF InClosure THEN "closure" ELSE "plain"
SetTag(t, x, v) == [y \in (DOMAIN t) \cup {x} |-> IF y = x THEN v ELSE t[y]]
\* (an assignment through a path with an index segment can pad the array with nulls: named separately)
HasIndexSeg(p) == \E j \in 1..Len(p) : "i" \in DOMAIN p[j]
TagTarget(t, tg) == IF tg.tk = "var" THEN SetTag(t, tg.x, IF TagNow = "plain" /\ HasIndexSeg(tg.p) THEN "index-path"
                                                         ELSE IF TagNow = "plain" /\ tg.p # <<>> THEN "field-path" ELSE TagNow) ELSE t
VtagAfter(f, out) ==
  LET n == f.n IN
  CASE n.k = "asg" /\ IsOk(out) -> TagTarget(vtag, n.tg)
    [] n.k = "asg2" /\ IsOk(out) /\ f.acc[1].o = "err" /\ n.ok.tk = "var" ->
         \* `ok` now holds the default value: it must belong to ok's reported type (C08)
         TagTarget(SetTag(vtag, n.ok.x, "dflt"), n.er)
    [] n.k = "asg2" /\ IsOk(out) -> TagTarget(TagTarget(vtag, n.ok), n.er)
    [] n.k = "call" /\ n.cls = "del" /\ n.q.tk = "var" /\ IsOk(out) -> SetTag(vtag, n.q.x, "del")
    [] OTHER -> vtag
TagOf(n) == IF n.k \in {"var", "qv"} /\ n.x \in DOMAIN vtag /\ vtag[n.x] # "plain" THEN ":" \o vtag[n.x] ELSE ""

HoldsDefault(n) == n.k \in {"var", "qv"} /\ n.x \in DOMAIN vtag /\ vtag[n.x] = "dflt"

\* A read of a variable that was never assigned at run time (the interpreter yields null) is
\* distinguished from a read of an assigned variable whose value is outside its type.
UnsetRead(f) == f.n.k \in {"var", "qv"} /\ f.n.x \notin DOMAIN vars

\* Within one run only the first finding per property is kept: later ones of the same property
\* are consequences of the same cause (a run with a stale type keeps reading stale types).
Untainted(fs) == SelectSeq(fs, LAMBDA x : ("tainted:" \o x.prop) \notin flags)
TaintOf(fs) == {"tainted:" \o fs[j].prop : j \in 1..Len(fs)}

\* An error at an infallible-typed node in a run that already showed a stale variable type or
\* constant (written in a closure / modified by del) is attributed to that cause.
StaleCause == IF "cause:closure" \in flags THEN ":stale-closure"
              ELSE IF "cause:del" \in flags THEN ":stale-del" ELSE ""
CauseOf(f, fs) == IF fs # <<>> /\ TagOf(f.n) # "" THEN {"cause" \o TagOf(f.n)} ELSE {}

StaticFindings(f, out) ==
  LET n == f.n IN
  IF ~HasStatic(n) \/ "tainted" \in flags THEN <<>>
  ELSE Untainted(
   (IF IsOk(out) /\ ~InKindExpr(out.v, n.st.kd)
      THEN << [prop |-> (IF n.k = "call" THEN "C03" ELSE IF HoldsDefault(n) THEN "C08" ELSE "C01"),
               rule |-> (IF HoldsDefault(n) THEN "DefaultInOkKind" ELSE IF UnsetRead(f) THEN "UnsetVarReadKind"
                         ELSE IF n.k \in {"var", "qv"} THEN "VarReadKind" \o TagOf(n) ELSE "ExprKind"),
               at |-> DescSt(n)] >>
      ELSE <<>>)
   \o
   (IF IsOk(out) /\ n.st.hc /\ out.v # n.st.c
      THEN << [prop |-> "C12", rule |-> (IF UnsetRead(f) THEN "ConstOfUnsetVar" ELSE "ConstMatches" \o TagOf(n)), at |-> DescSt(n)] >>
      ELSE <<>>)
   \o
   (IF out.o = "err" /\ ~ChildErr(f) /\ ~n.st.fal /\ ~(n.k = "call" /\ n.bang)
      THEN << [prop |-> "C02", rule |-> "InfallibleNodeErrs" \o StaleCause, at |-> DescSt(n)] >>
      ELSE <<>>))

RECURSIVE AddAllAt(_, _, _, _)
AddAllAt(vs, fs, what, id) ==
  IF fs = <<>> THEN vs
  ELSE AddAllAt(Append(vs, [prop |-> Head(fs).prop, rule |-> Head(fs).rule, at |-> Head(fs).at, what |-> what,
                            prog |-> id, line |-> l]), Tail(fs), what, id)

RECURSIVE AddAll(_, _, _)
AddAll(vs, fs, what) == IF fs = <<>> THEN vs
                        ELSE AddAll(Append(vs, Note(Head(fs), what)), Tail(fs), what)

(* ======================= the trace actions ======================= *)

T_Prog ==
  /\ l <= Len(Rec) /\ Ev.e = "prog"
  /\ prog' = Ev
  /\ mode' = "idle" /\ k' = <<>> /\ vars' = <<>>
  /\ cnt' = Bump(cnt, "events")
  /\ l' = l + 1
  /\ UNCHANGED <<run, viols, divs, flags, vtag>>

T_Start ==
  /\ l <= Len(Rec) /\ Ev.e = "start"
  /\ run' = [ev |-> Ev.ev, meta |-> Ev.meta, probe |-> FALSE, tops |-> <<>>, writes |-> <<>>, mode |-> Ev.mode,
              probefault |-> FALSE]
  /\ vars' = <<>>
  /\ k' = << NewFrame([k |-> "prog", s |-> prog.ast], <<>>) >>
  /\ mode' = "run"
  \* under injected faults a rejected read yields null where the type says otherwise: the static
  \* facts (C01/C02/C12) are asserted on fault-free runs only
  /\ flags' = (IF Ev.mode = "plain" THEN {} ELSE {"tainted", "C17"})
  /\ cnt' = Bump(Bump(cnt, "events"), "runs")
  /\ l' = l + 1
  /\ vtag' = <<>>
  /\ UNCHANGED <<prog, viols, divs>>

\* events of a run that was abandoned
T_Skip ==
  /\ l <= Len(Rec) /\ mode = "skip" /\ Ev.e \in {"enter", "exit", "T", "end"}
  /\ mode' = (IF Ev.e = "end" THEN "idle" ELSE "skip")
  /\ cnt' = Bump(cnt, "events")
  /\ l' = l + 1
  /\ UNCHANGED <<k, vars, prog, run, viols, divs, flags, vtag>>

T_Enter ==
  /\ l <= Len(Rec) /\ mode = "run" /\ Ev.e = "enter"
  /\ l' = l + 1
  /\ LET x == Expect(Top, vars) IN
     IF x.a = "enter" /\ KindStr(x.n) = Ev.k
     THEN /\ vars' = NewVars
          /\ k' = Append(k, NewFrame(x.n, NewVars))
          /\ cnt' = Bump(cnt, "events")
          /\ UNCHANGED <<prog, run, mode, viols, divs, flags, vtag>>
     ELSE Abandon(Blame(Top), [got |-> "enter " \o Ev.k, expected |-> x.a])

\* C13: after a closure-taking call, every parameter name holds what it held before
ParamsRestored(f, after) ==
  \A j \in 1..Len(f.n.cl.p) :
     LET x == f.n.cl.p[j] IN
     (x \in DOMAIN f.sv) = (x \in DOMAIN after) /\ (x \in DOMAIN after => after[x] = f.sv[x])

T_Exit ==
  /\ l <= Len(Rec) /\ mode = "run" /\ Ev.e = "exit"
  /\ l' = l + 1
  /\ LET f == Top
         x == Expect(f, vars)
         out == Ev.out
         okexit == /\ Len(k) > 1
                   /\ x.a = "exit"
                   /\ KindStr(f.n) = Ev.k
                   /\ out.o \in x.allow
                   /\ (x.hv => OutcomeEq(x.v, out))
     IN
     IF ~okexit
     THEN Abandon(Blame(f), [got |-> "exit " \o Ev.k \o " " \o out.o, expected |-> x.a])
     ELSE LET sf == StaticFindings(f, out)
              \* "finishes, whether it succeeds or fails": abort / return end the whole program,
              \* after which no variable can be observed any more
              scoped == (f.n.k = "call" /\ HasF(f.n, "cl") /\ out.o \in {"ok", "err"}) => ParamsRestored(f, NewVars)
              \* variable store after the construct must be what the construct's rule says
              storeok == \/ f.n.k \notin {"asg", "asg2"}
                         \/ (f.n.k = "asg2" /\ IsOk(out) /\ f.acc[1].o = "err" /\ ~HasDefault(f.n))
                         \/ ExitVars(f, out, vars) = NewVars
          IN
          IF ~scoped
          THEN Abandon([prop |-> "C13", rule |-> "ClosureParamsScoped", at |-> Desc(f.n)],
                       [got |-> "params differ after call", expected |-> "restored"])
          ELSE IF ~storeok
          THEN Abandon((IF f.n.k = "asg2" THEN [prop |-> "C08", rule |-> "InfallibleAssignStore", at |-> Desc(f.n)]
                                          ELSE [prop |-> "D", rule |-> "AssignStore", at |-> Desc(f.n)]),
                       [got |-> "variables after assignment", expected |-> "rule"])
          ELSE /\ vars' = NewVars
               /\ k' = Append(SubSeq(k, 1, Len(k) - 2), Absorb(k[Len(k) - 1], out))
               /\ viols' = AddAll(viols, sf, [got |-> out, expected |-> "static"])
               /\ flags' = flags \cup ExitFlags(f, out) \cup TaintOf(sf) \cup CauseOf(f, sf)
               /\ cnt' = LET c1 == Bump(cnt, "events")
                             c2 == IF HasStatic(f.n) /\ IsOk(out) THEN Bump(c1, "kind_checks") ELSE c1
                             c3 == IF HasStatic(f.n) /\ IsOk(out) /\ f.n.st.hc THEN Bump(c2, "const_checks") ELSE c2
                             c4 == IF out.o = "err" /\ ~ChildErr(f) THEN Bump(c3, "err_exits") ELSE c3
                         IN c4
               /\ vtag' = VtagAfter(f, out)
               /\ UNCHANGED <<prog, run, mode, divs>>

\* C16: every target location touched at run time is covered by ProgramInfo
Covered(pre, p, list) ==
  \E j \in 1..Len(list) : list[j].pre = pre /\ Related(list[j].p, p)

T_Target ==
  /\ l <= Len(Rec) /\ mode = "run" /\ Ev.e = "T"
  /\ l' = l + 1
  /\ IF ~run.probe
     THEN \* Runtime::resolve probes the event root before anything else
          IF Ev.op = "get" /\ Ev.pre = "event" /\ Ev.p = <<>> /\ Len(k) = 1
          THEN /\ run' = [run EXCEPT !.probe = TRUE, !.probefault = Ev.fault]
               /\ cnt' = Bump(cnt, "events")
               /\ UNCHANGED <<k, vars, prog, mode, viols, divs, flags, vtag>>
          ELSE Abandon([prop |-> "D", rule |-> "RootProbe", at |-> "runtime"],
                       [got |-> Ev.op, expected |-> "root probe"])
     ELSE
       LET f == Top
           x == Expect(f, vars)
           covered == IF Ev.op = "ins" THEN Covered(Ev.pre, Ev.p, prog.info.assignments)
                                       ELSE Covered(Ev.pre, Ev.p, prog.info.queries)
           tv == IF Ev.fault \/ IsNone(Ev.res) THEN Null ELSE Ev.res
       IN
       IF x.a = "target" /\ x.op = Ev.op /\ x.pre = Ev.pre /\ x.p = Ev.p
       THEN /\ k' = [k EXCEPT ![Len(k)] = [f EXCEPT !.t = @ + 1, !.tv = tv]]
            /\ viols' = (IF covered THEN viols
                         ELSE Append(viols, Note([prop |-> "C16", rule |-> "InfoComplete", at |-> Desc(f.n)],
                                                 [got |-> Ev.p, expected |-> "covered by ProgramInfo"])))
            /\ flags' = flags \cup {"C16"}
            /\ cnt' = Bump(cnt, "events")
            /\ run' = [run EXCEPT !.tops = Append(@, Ev.op),
                                    !.writes = IF Ev.op \in {"ins", "rem"} /\ ~Ev.fault
                                               THEN Append(@, [op |-> Ev.op, pre |-> Ev.pre, p |-> Ev.p]) ELSE @]
            /\ UNCHANGED <<vars, prog, mode, divs, vtag>>
       ELSE IF run.mode # "plain"
            THEN \* under injected faults the interpreter must issue exactly the operations the rules say
                 Abandon([prop |-> "C17", rule |-> "FaultedOperationProtocol", at |-> Desc(f.n)],
                         [got |-> "target " \o Ev.op, expected |-> x.a])
            ELSE Abandon(Blame(f), [got |-> "target " \o Ev.op, expected |-> x.a])

\* whole-run checks at Runtime::resolve's return
FinalFindings(res, viaret) ==
  LET fin == prog.final
      okrun == res.r = "ok"
      sfx == IF viaret THEN "AfterReturn" ELSE "" IN
  (IF okrun /\ ~(InKindExpr(res.v, fin.result) \/ InKindExpr(res.v, fin.returns))
     THEN << [prop |-> "C01", rule |-> "ResultKind" \o sfx, at |-> "program"] >> ELSE <<>>)
  \o (IF okrun /\ ~Ev.faulted /\ ~InKind(Ev.ev, fin.target)
     THEN << [prop |-> "C01", rule |-> "EventKind" \o sfx, at |-> "program"] >> ELSE <<>>)
  \o (IF okrun /\ ~Ev.faulted /\ ~InKind(Ev.meta, fin.metadata)
     THEN << [prop |-> "C01", rule |-> "MetadataKind" \o sfx, at |-> "program"] >> ELSE <<>>)
  \o (IF ~okrun /\ ~prog.has_bang /\ ~prog.has_abort /\ ~Ev.faulted /\ ~Ev.nan
     THEN << [prop |-> "C02", rule |-> "NoRuntimeFailure", at |-> "program"] >> ELSE <<>>)
  \o (IF res.r = "error" /\ ~prog.info.fallible /\ ~Ev.faulted /\ ~Ev.nan
     THEN << [prop |-> "C02", rule |-> "InfoFallible", at |-> "program"] >> ELSE <<>>)
  \o (IF res.r = "abort" /\ ~prog.info.abortable
     THEN << [prop |-> "C02", rule |-> "InfoAbortable", at |-> "program"] >> ELSE <<>>)
  \o (IF okrun /\ \E j \in 1..Len(prog.cparams) : prog.cparams[j] \in DOMAIN Ev.vars
     THEN << [prop |-> "C13", rule |-> "ParamVisibleAtEnd", at |-> "program"] >> ELSE <<>>)

\* C15: values at read-only paths are unchanged by the run (recursive: deeply; otherwise the value
\* *at* the path: same scalar, or still a container of the same type - children of a
\* non-recursively read-only container may change).
RoRoot(e, ev, meta) == IF e.pre = "event" THEN ev ELSE meta
Shallow(v) == IF IsNone(v) THEN "none" ELSE IF IsContainer(v) THEN v.t ELSE "scalar"
ChangeShape(v0, v1) ==
  CASE IsNone(v1) -> "removed"
    [] IsNone(v0) -> "created"
    [] ~IsContainer(v0) /\ IsContainer(v1) -> "scalar-to-container"
    [] IsContainer(v0) /\ ~IsContainer(v1) -> "container-to-scalar"
    [] OTHER -> "value-changed"
PathShape(p) == IF \E j \in 1..Len(p) : IsIndex(p[j]) THEN "index-path" ELSE "field-path"
\* How a performed write w relates to the read-only entry e.  The compiler's check is syntactic
\* (CompileConfig::is_read_only_path): it must reject a write to the path itself or a parent, and to
\* children of a recursive entry.  Everything else names the way the value changed all the same.
FirstDiff(p, q) == CHOOSE j \in 1..Len(p) : j <= Len(q) /\ p[j] # q[j] /\ \A i \in 1..(j - 1) : p[i] = q[i]
WriteRel(w, e) ==
  IF w.pre # e.pre THEN "other-prefix"
  ELSE IF IsPrefixOf(w.p, e.p) THEN "syntactic-parent-or-self"
  ELSE IF IsPrefixOf(e.p, w.p) THEN (IF e.rec THEN "syntactic-child-of-recursive" ELSE "child-of-shallow-entry")
  ELSE LET j == FirstDiff(w.p, e.p) IN
       IF IsIndex(w.p[j]) /\ IsIndex(e.p[j]) THEN "index-alias-or-shift"
       ELSE IF IsIndex(w.p[j]) # IsIndex(e.p[j]) THEN "segment-type-mismatch-replaces-container"
       ELSE "unrelated-field"
CauseOrder == <<"syntactic-parent-or-self", "syntactic-child-of-recursive", "child-of-shallow-entry",
                "index-alias-or-shift", "segment-type-mismatch-replaces-container", "unrelated-field", "other-prefix">>
Cause(e) ==
  LET rels == {WriteRel(run.writes[j], e) : j \in 1..Len(run.writes)}
      hits == {j \in 1..Len(CauseOrder) : CauseOrder[j] \in rels}
  IN IF hits = {} THEN "no-write" ELSE CauseOrder[CHOOSE j \in hits : \A i \in hits : j <= i]
RoFindings ==
  LET Check(e) ==
        LET v0 == Get(RoRoot(e, run.ev, run.meta), e.p)
            v1 == Get(RoRoot(e, Ev.ev, Ev.meta), e.p)
            same == IF e.rec THEN v0 = v1
                    ELSE IF ~IsNone(v0) /\ ~IsNone(v1) /\ IsContainer(v0) THEN v0.t = v1.t
                    ELSE v0 = v1
        IN IF same THEN <<>>
           ELSE << [prop |-> "C15", rule |-> "ReadOnlyUnchanged" \o (IF e.rec THEN ":recursive" ELSE ":shallow"),
                    at |-> Cause(e)] >>
      RECURSIVE All(_)
      All(j) == IF j > Len(prog.ro) THEN <<>> ELSE Check(prog.ro[j]) \o All(j + 1)
  IN All(1)

ResEq(want, got) ==
  /\ want.r = got.r
  /\ (want.r = "ok" => want.v = got.v)
  /\ (want.r = "abort" => want.hm = got.hm /\ (want.hm => want.m = got.m))

T_End ==
  /\ l <= Len(Rec) /\ mode = "run" /\ Ev.e = "end"
  /\ l' = l + 1
  /\ LET f == Top
         x == Expect(f, vars) IN
     IF run.probefault
     THEN \* C17: a target whose root cannot be read makes the run end with an error, nothing runs
          /\ mode' = "idle" /\ k' = <<>> /\ vars' = Ev.vars
          /\ viols' = (IF Ev.res.r = "error" /\ Len(k) = 1 /\ Len(f.acc) = 0 THEN viols
                        ELSE Append(viols, Note([prop |-> "C17", rule |-> "RootFaultEndsWithError", at |-> "runtime"],
                                                [got |-> Ev.res, expected |-> "error"])))
          /\ cnt' = Bump(Bump(cnt, "events"), "C17")
          /\ UNCHANGED <<prog, run, divs, flags, vtag>>
     ELSE
     IF Len(k) = 1 /\ x.a = "exit" /\ x.hv /\ ResEq(FinishOf(x.v), Ev.res)
     THEN /\ mode' = "idle" /\ k' = <<>>
          /\ vars' = Ev.vars
          /\ viols' = AddAll((IF "tainted" \in flags THEN viols
                               ELSE AddAll(viols, Untainted(FinalFindings(Ev.res, x.v.o = "ret")), [got |-> Ev.res, expected |-> "final"])),
                              (IF run.mode = "plain" THEN RoFindings ELSE <<>>),
                              [got |-> [ev |-> Ev.ev, meta |-> Ev.meta], expected |-> [ev |-> run.ev, meta |-> run.meta, ro |-> prog.ro]])
          /\ cnt' = LET c1 == Bump(cnt, "events")
                        Fl(c, s) == IF s \in flags THEN Bump(c, s) ELSE c
                        c2 == IF Len(prog.ro) > 0 /\ Len(run.tops) > 0 THEN Bump(c1, "C15") ELSE c1
                    IN Fl(Fl(Fl(Fl(Fl(Fl(Fl(c2, "C06"), "C07"), "C08"), "C09"), "C13"), "C16"), "C17")
          /\ UNCHANGED <<prog, run, divs, flags, vtag>>
     ELSE \* the root block did not end the way the machine says: blame the pending control effect
          Abandon((IF Len(k) = 1 /\ x.a = "exit" /\ x.hv /\ x.v.o = "ret"
                     THEN [prop |-> "C06", rule |-> "ReturnEndsProgram", at |-> "program"]
                   ELSE IF Len(k) = 1 /\ x.a = "exit" /\ x.hv /\ x.v.o = "abort"
                     THEN [prop |-> "C07", rule |-> "AbortEndsProgram", at |-> "program"]
                   ELSE IF Len(k) >= 1 THEN Blame(f)
                   ELSE [prop |-> "D", rule |-> "End", at |-> "program"]),
                  [got |-> Ev.res, expected |-> x.a])

\* the real compiler rejected a generated program: nothing to validate, counted only
T_Reject ==
  /\ l <= Len(Rec) /\ Ev.e = "reject"
  /\ mode' = "idle" /\ k' = <<>>
  /\ cnt' = Bump(Bump(cnt, "events"), "rejected")
  /\ l' = l + 1
  /\ UNCHANGED <<vars, prog, run, viols, divs, flags, vtag>>

\* a panic of the code under test is data: no action of the machine explains it (C04)
T_Panic ==
  /\ l <= Len(Rec) /\ Ev.e = "panic"
  /\ mode' = "idle" /\ k' = <<>>
  /\ viols' = Append(viols, [prop |-> "C04", rule |-> "NoPanic", at |-> Ev.where,
                              what |-> [got |-> Ev.message, expected |-> "no panic"],
                              prog |-> (IF HasF(Ev, "id") THEN Ev.id ELSE prog.id), line |-> l])
  /\ cnt' = Bump(cnt, "events")
  /\ l' = l + 1
  /\ UNCHANGED <<vars, prog, run, divs, flags, vtag>>

\* C17: the run with rejected operations must be indistinguishable from a run on a target where
\* exactly those operations were silently skipped (a rejected read = a missing field, a rejected
\* write / removal = nothing happened), and it must not have panicked.
T_FaultCmp ==
  /\ l <= Len(Rec) /\ Ev.e = "faultcmp"
  /\ l' = l + 1
  /\ LET a == Ev.fault  b == Ev.skip
         same == /\ a.e = "end" /\ b.e = "end"
                 /\ a.res.r = b.res.r
                 /\ (a.res.r = "ok" => a.res.v = b.res.v)
                 /\ a.ev = b.ev /\ a.meta = b.meta /\ a.vars = b.vars
     IN viols' = (IF same THEN viols
                  ELSE Append(viols, [prop |-> "C17", rule |-> "FaultEqualsSkip", at |-> "runtime",
                                      what |-> [got |-> a, expected |-> b, sched |-> Ev.sched],
                                      prog |-> prog.id, line |-> l]))
  /\ cnt' = Bump(Bump(cnt, "events"), "faultcmps")
  /\ UNCHANGED <<k, vars, prog, run, mode, divs, flags, vtag>>

\* C14: one compiled program, equal events => equal outcome (result, final event, metadata,
\* variables), whether the runtime is fresh, was cleared after other events (two orders), or runs
\* concurrently with other threads sharing the program; and compiling twice reports the same.
\* The harness supplies, per event, the baseline end record and the DISTINCT end records observed
\* in the history runs and in all concurrent runs.
DetFindings ==
  LET pe == Ev.per_event
      bad(kind) == \E j \in 1..Len(pe) :
                     LET xs == IF kind = "hist" THEN pe[j].hist ELSE pe[j].conc
                     IN \E i \in 1..Len(xs) : xs[i] # pe[j].base
  IN (IF ~Ev.compile_same THEN << [prop |-> "C14", rule |-> "CompileDeterministic", at |-> "compiler"] >> ELSE <<>>)
     \o (IF bad("hist") THEN << [prop |-> "C14", rule |-> "ClearedRuntimeEqualsFresh", at |-> "runtime"] >> ELSE <<>>)
     \o (IF bad("conc") THEN << [prop |-> "C14", rule |-> "ConcurrentEqualsSequential", at |-> "runtime"] >> ELSE <<>>)
     \o (IF \E j \in 1..Len(pe) : pe[j].base.e = "panic"
         THEN << [prop |-> "C04", rule |-> "NoPanic", at |-> "run"] >> ELSE <<>>)

T_DetCmp ==
  /\ l <= Len(Rec) /\ Ev.e = "detcmp"
  /\ l' = l + 1
  /\ viols' = AddAllAt(viols, DetFindings, [got |-> Ev.src, expected |-> "equal outcomes"], Ev.id)
  /\ cnt' = Bump(Bump(cnt, "events"), "C14")
  /\ mode' = "idle" /\ k' = <<>>
  /\ UNCHANGED <<vars, prog, run, divs, flags, vtag>>

\* C14 at function level: every stdlib call of the matrix evaluated alone on a fresh thread and again
\* after the other calls of its function on one thread (two orders) - same outcome.
T_History ==
  /\ l <= Len(Rec) /\ Ev.e = "history"
  /\ l' = l + 1
  /\ viols' = (IF Len(Ev.diffs) = 0 THEN viols
                ELSE Append(viols, [prop |-> "C14", rule |-> "CallIndependentOfThreadHistory", at |-> Ev.f, prog |-> 0, line |-> l,
                                    what |-> Ev.diffs[1]]))
  /\ cnt' = [Bump(cnt, "events") EXCEPT !.C14 = @ + Ev.calls]
  /\ mode' = "idle" /\ k' = <<>>
  /\ UNCHANGED <<vars, prog, run, divs, flags, vtag>>

\* a whole history job lost (its worker hung or died - that is C05 / C04 material, judged there)
T_LostJob ==
  /\ l <= Len(Rec) /\ Ev.e = "call"
  /\ l' = l + 1
  /\ cnt' = Bump(cnt, "events")
  /\ mode' = "idle" /\ k' = <<>>
  /\ UNCHANGED <<vars, prog, run, viols, divs, flags, vtag>>

TraceInit ==
  /\ l = 1 /\ k = <<>> /\ vars = <<>> /\ prog = [id |-> 0] /\ run = [probe |-> FALSE]
  /\ mode = "idle" /\ viols = <<>> /\ divs = <<>>
  /\ cnt = [c \in CntNames |-> 0] /\ flags = {} /\ vtag = <<>>

TraceNext == T_Prog \/ T_Start \/ T_Skip \/ T_Enter \/ T_Exit \/ T_Target \/ T_End \/ T_Reject \/ T_Panic \/ T_FaultCmp \/ T_DetCmp \/ T_History \/ T_LostJob

TraceSpec == TraceInit /\ [][TraceNext]_tvars

\* Reported once, when the whole file has been consumed.
Report ==
  (l = Len(Rec) + 1) =>
     PrintT(<<"RESULT", ToJson([consumed |-> l - 1, viols |-> viols, divs |-> divs, cnt |-> cnt])>>)

\* If some event could not be consumed, say where (an unexplained trace is a tool error).
TraceAccepted ==
  \/ TLCGet("stats").diameter - 1 = Len(Rec)
  \/ PrintT(<<"STUCK", TLCGet("stats").diameter, Len(Rec)>>)

=============================================================================
