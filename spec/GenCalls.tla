------------------------------ MODULE GenCalls ------------------------------
(***************************************************************************)
(* The call matrix for C03 / C04 / C05.  The signature table of every      *)
(* stdlib function (exported from the real code by `vh sigtable`) is a     *)
(* constant of this module; for each function TLC generates:               *)
(*   - the base call: every required parameter at its first representative *)
(*   - for every parameter (required or optional), every candidate value   *)
(*     of EVERY kind - valid or not, including edge values (i64 MIN/MAX,   *)
(*     signed zeros, infinities, empty containers) - in that position,     *)
(*     once as a literal and once as a runtime-typed value (read from an   *)
(*     any-typed event field), the other parameters at their base values;  *)
(*   - enum parameters: every declared variant and one undeclared string.  *)
(***************************************************************************)
EXTENDS Values, Json, IOUtils, SequencesExt

SIG == JsonDeserialize(IOEnv.SIGTABLE).fns

M == 65535
BigInt(w) == [t |-> "int", w |-> w]
Flt(b) == [t |-> "float", b |-> b]
Ts(s) == [t |-> "ts", s |-> s]
Rx(s) == [t |-> "regex", s |-> s]
Cand(kind) ==
  CASE kind = "bytes" -> <<Str("a"), Str(""), Str("abc def"), Str("12"), Str("-7"), Str("1.5"), Str("true"),
                           Str("2021-02-03T04:05:06Z"), Str("{\"a\":1}"), Str("a=b c=d"), Str("%"), Str("1.2.3.4"), Str("::1"),
                           Str("aGk="), Str("/a/b"), Str("x,y"), Str("%{"), Str("[a"), Str("utf-8")>>
    [] kind = "integer" -> <<IntV(1), IntV(0), IntV(-1), IntV(2), IntV(10), IntV(36), IntV(64), IntV(255), IntV(100000),
                             BigInt(<<0, 0, 32768, 0>>), BigInt(<<32767, M, M, M>>), BigInt(<<32768, 0, 0, 0>>)>>
    [] kind = "float" -> <<Flt(<<16376, 0, 0, 0>>), Flt(<<0, 0, 0, 0>>), Flt(<<32768, 0, 0, 0>>), Flt(<<49144, 0, 0, 0>>),
                           Flt(<<32311, 58428, 34816, 30108>>), Flt(<<32752, 0, 0, 0>>), Flt(<<65520, 0, 0, 0>>), Flt(<<16313, 39321, 39321, 39322>>)>>
    [] kind = "boolean" -> <<Bool(TRUE), Bool(FALSE)>>
    [] kind = "null" -> <<Null>>
    [] kind = "timestamp" -> <<Ts("2021-02-03T04:05:06.789Z"), Ts("1970-01-01T00:00:00Z")>>
    [] kind = "regex" -> <<Rx("a"), Rx("(?P<x>\\d+)"), Rx("")>>
    [] kind = "array" -> <<Arr(<<IntV(1), Str("a")>>), EmptyArr, Arr(<<Str("a"), Str("b")>>), Arr(<<Arr(<<IntV(1)>>), Arr(<<IntV(2)>>)>>),
                           Arr(<<Obj([k |-> IntV(1)])>>), Arr(<<Str("a"), Str("b"), IntV(3)>>), Arr(<<Str("x"), Null, Str("y")>>)>>
    [] kind = "object" -> <<Obj([a |-> IntV(1)]), EmptyObj, Obj([k |-> Str("v"), n |-> Null]), Obj([a |-> Obj([b |-> Arr(<<IntV(1), IntV(2)>>)])])>>
    [] OTHER -> <<>>
AllKinds == <<"bytes", "integer", "float", "boolean", "null", "timestamp", "regex", "array", "object">>
SeqSet(q) == {q[j] : j \in 1..Len(q)}
AllCands == UNION {SeqSet(Cand(AllKinds[j])) : j \in 1..Len(AllKinds)}

FirstKind(p) == IF Len(p.kinds) = 0 THEN "null" ELSE IF p.kinds[1] = "undefined" /\ Len(p.kinds) > 1 THEN p.kinds[2] ELSE p.kinds[1]
BaseVal(p) == IF Len(p.enum) > 0 THEN Str(p.enum[1]) ELSE LET c == Cand(FirstKind(p)) IN IF c = <<>> THEN Null ELSE c[1]
ArgRec(p, v, lit) == [kw |-> p.kw, v |-> v, lit |-> lit, kinds |-> p.kinds]
BaseArgs(f, except) == LET idx == SelectSeq([j \in 1..Len(f.params) |-> j], LAMBDA j : f.params[j].required /\ j # except)
                       IN [j \in 1..Len(idx) |-> ArgRec(f.params[idx[j]], BaseVal(f.params[idx[j]]), TRUE)]
CandsFor(p) == IF Len(p.enum) > 0 THEN {Str(p.enum[j]) : j \in 1..Len(p.enum)} \cup {Str("zzz"), IntV(1)} ELSE AllCands
\* pairwise: two parameters at once at valid-kind edge values (the others at base)
Edge(kind) ==
  CASE kind = "integer" -> {BigInt(<<32768, 0, 0, 0>>), BigInt(<<32767, M, M, M>>), IntV(-1), IntV(0), IntV(36)}
    [] kind = "float" -> {Flt(<<32752, 0, 0, 0>>), Flt(<<32768, 0, 0, 0>>)}
    [] kind = "bytes" -> {Str(""), Str("%{")}
    [] kind = "array" -> {EmptyArr}
    [] kind = "object" -> {EmptyObj}
    [] kind = "boolean" -> {Bool(FALSE), Bool(TRUE)}
    [] OTHER -> {}
EdgesFor(p) == IF Len(p.enum) > 0 THEN {Str(p.enum[j]) : j \in 1..Len(p.enum)}
               ELSE UNION {Edge(p.kinds[j]) : j \in 1..Len(p.kinds)}
BaseArgs2(f, e1, e2) == LET idx == SelectSeq([j \in 1..Len(f.params) |-> j], LAMBDA j : f.params[j].required /\ j # e1 /\ j # e2)
                        IN [j \in 1..Len(idx) |-> ArgRec(f.params[idx[j]], BaseVal(f.params[idx[j]]), TRUE)]
CallsOf(f) ==
  {BaseArgs(f, 0)}
  \cup UNION {{BaseArgs(f, i) \o <<ArgRec(f.params[i], c, lit)>> : c \in CandsFor(f.params[i]), lit \in BOOLEAN} : i \in 1..Len(f.params)}
  \cup UNION {UNION {{BaseArgs2(f, i, j) \o <<ArgRec(f.params[i], c, TRUE), ArgRec(f.params[j], d, lit)>>
                        : c \in EdgesFor(f.params[i]), d \in EdgesFor(f.params[j]), lit \in BOOLEAN}
                     : j \in (i + 1)..Len(f.params)}
              : i \in 1..Len(f.params)}

VARIABLE fi
Init == fi \in 1..Len(SIG)
Next == UNCHANGED fi
Spec == Init /\ [][Next]_fi
Emit == PrintT(<<"CALLS", ToJson([f |-> SIG[fi].f, ret |-> SIG[fi].ret, calls |-> SetToSeq(CallsOf(SIG[fi]))])>>)
=============================================================================
