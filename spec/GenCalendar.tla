---------------------------- MODULE GenCalendar ----------------------------
(* Self-checks of Calendar.tla (two independent definitions agree on every day of 1560..2650, the successor of a *)
(* day is the next civil date) and the universes of the C35 timestamp check, printed once.                        *)
EXTENDS Calendar, Json, TLC, SequencesExt
DayRange == -150000..250000
ASSUME \A z \in DayRange : LET c == CivilFromDays(z) IN
          /\ ValidDate(c.y, c.mo, c.d)
          /\ DaysFromCivil(c.y, c.mo, c.d) = z
          /\ DaysFromCivilSlow(c.y, c.mo, c.d) = z
ASSUME \A z \in DayRange : LET c == CivilFromDays(z)  n == CivilFromDays(z + 1) IN
          IF c.d < DaysInMonth(c.y, c.mo) THEN n = [c EXCEPT !.d = c.d + 1]
          ELSE IF c.mo < 12 THEN n = [y |-> c.y, mo |-> c.mo + 1, d |-> 1]
          ELSE n = [y |-> c.y + 1, mo |-> 1, d |-> 1]
ASSUME CivilFromDays(0) = [y |-> 1970, mo |-> 1, d |-> 1] /\ DaysFromCivil(2000, 3, 1) = 11017 /\ DaysFromCivil(1969, 12, 31) = -1
ASSUME ToUtc([y |-> 1970, mo |-> 1, d |-> 1, h |-> 0, mi |-> 30, s |-> 0], 60) = [days |-> -1, sod |-> 84600]
ASSUME ToUtc([y |-> 2024, mo |-> 2, d |-> 29, h |-> 23, mi |-> 59, s |-> 59], -720) = [days |-> DaysFromCivil(2024, 3, 1), sod |-> 43199]

Dates == { <<1970, 1, 1>>, <<1969, 12, 31>>, <<1999, 12, 31>>, <<2000, 2, 29>>, <<2000, 3, 1>>, <<2024, 2, 29>>, <<2023, 12, 31>>, <<2100, 2, 28>>,
           <<2100, 3, 1>>, <<1900, 2, 28>>, <<1900, 3, 1>>, <<2038, 1, 19>>, <<2400, 2, 29>>, <<1600, 12, 31>>, <<2021, 7, 4>>, <<2021, 11, 7>>, <<2021, 3, 14>> }
Times == { <<0, 0, 0>>, <<23, 59, 59>>, <<12, 30, 45>>, <<0, 30, 0>>, <<1, 30, 0>>, <<2, 30, 0>>, <<23, 30, 0>> }
Offsets == {0, 330, -480, 765, -720, 840, 1, -1, 60, -300}
Fracs == { <<>>, <<5>>, <<1, 2, 3>>, <<1, 2, 3, 4, 5, 6, 7, 8, 9>>, <<0, 0, 0, 0, 0, 0, 0, 0, 1>> }
\* default time zones: fixed offsets (minutes east of UTC; note the inverted sign of the Etc names) and zones with daylight saving
FixedZones == [z \in {"UTC", "Etc/GMT+5", "Etc/GMT-3", "Etc/GMT-14", "Etc/GMT+12"} |->
                 IF z = "UTC" THEN 0 ELSE IF z = "Etc/GMT+5" THEN -300 ELSE IF z = "Etc/GMT-3" THEN 180 ELSE IF z = "Etc/GMT-14" THEN 840 ELSE -720]
DstZones == <<"America/New_York", "Europe/London", "Australia/Lord_Howe", "Asia/Kolkata", "Pacific/Apia">>
ASSUME PrintT(<<"DATES", ToJson(SetToSeq(Dates))>>)
ASSUME PrintT(<<"TIMES", ToJson(SetToSeq(Times))>>)
ASSUME PrintT(<<"OFFSETS", ToJson(SetToSeq(Offsets))>>)
ASSUME PrintT(<<"FRACS", ToJson(SetToSeq(Fracs))>>)
ASSUME PrintT(<<"FIXEDZONES", ToJson(FixedZones)>>)
ASSUME PrintT(<<"DSTZONES", ToJson(DstZones)>>)
VARIABLE dummy
Init == dummy = 0
Next == UNCHANGED dummy
Spec == Init /\ [][Next]_dummy
=============================================================================
