-------------------------------- MODULE GenTz --------------------------------
(* Configured timezones, formats and instants for C36, printed once. *)
EXTENDS Sequences, Json, TLC
Zones == <<"UTC", "Asia/Kolkata", "America/New_York", "Europe/London", "Pacific/Chatham", "local">>
\* [f |-> strftime format, pinned |-> the format carries an explicit offset or is an epoch count]
Formats == << [f |-> "%Y-%m-%d %H:%M:%S", pinned |-> FALSE], [f |-> "%Y-%m-%dT%H:%M:%S%.f", pinned |-> FALSE], [f |-> "%d/%b/%Y:%H:%M:%S", pinned |-> FALSE],
              [f |-> "%+", pinned |-> TRUE], [f |-> "%Y-%m-%dT%H:%M:%S%z", pinned |-> TRUE], [f |-> "%Y-%m-%d %H:%M:%S %:z", pinned |-> TRUE],
              [f |-> "%s", pinned |-> FALSE], [f |-> "%a, %d %b %Y %H:%M:%S %z", pinned |-> TRUE] >>
\* instants incl. DST gap / overlap moments of New York and London
Instants == <<"2021-03-14T06:30:00.000000000Z", "2021-03-14T07:30:00.000000000Z", "2021-11-07T05:30:00.000000000Z", "2021-11-07T06:30:00.000000000Z",
              "2021-03-28T01:30:00.000000000Z", "2021-10-31T00:30:00.000000000Z", "2021-07-01T12:00:00.000000000Z", "1970-01-01T00:00:00.000000000Z",
              "2038-01-19T03:14:08.000000000Z", "2000-02-29T23:59:59.000000000Z">>
TzArgs == <<"UTC", "Europe/London", "Asia/Kolkata", "America/New_York">>
\* wall-clock readings <<y, mo, d, h, mi, s>> that do not exist (spring-forward gap) or exist twice (overlap) in one of the configured
\* zones, plus ordinary ones; written into log lines together with an explicit offset, which pins the instant whatever the zone
WallClocks == << <<2021, 3, 14, 2, 30, 0>>, <<2021, 11, 7, 1, 30, 0>>, <<2021, 3, 28, 1, 30, 0>>, <<2021, 10, 31, 1, 30, 0>>, <<2021, 9, 26, 3, 0, 0>>,
                 <<2021, 4, 4, 3, 0, 0>>, <<2024, 3, 10, 2, 15, 0>>, <<2024, 3, 31, 1, 59, 59>>, <<2021, 7, 1, 12, 0, 0>>, <<2000, 10, 10, 13, 55, 36>> >>
TextOffsets == <<"+0000", "-0700", "+0100", "+0530", "-0500", "+1245">>
ASSUME PrintT(<<"WALLCLOCKS", ToJson(WallClocks)>>)
ASSUME PrintT(<<"TEXTOFFSETS", ToJson(TextOffsets)>>)
ASSUME PrintT(<<"ZONES", ToJson(Zones)>>)
ASSUME PrintT(<<"FORMATS", ToJson(Formats)>>)
ASSUME PrintT(<<"INSTANTS", ToJson(Instants)>>)
ASSUME PrintT(<<"TZARGS", ToJson(TzArgs)>>)
VARIABLE dummy
Init == dummy = 0
Next == UNCHANGED dummy
Spec == Init /\ [][Next]_dummy
=============================================================================
