------------------------------ MODULE VrlCore ------------------------------
(***************************************************************************)
(* Abstract machine for the compiled VRL language (what `Compiler`         *)
(* produces and `Expr::resolve` walks).  One machine step per critical     *)
(* section of the Rust `resolve` functions:                                *)
(*                                                                         *)
(*   Enter(child)   a construct asks for one of its sub-expressions        *)
(*   TargetOp       a construct calls target_get / _insert / _remove       *)
(*   Exit(outcome)  a construct finishes: Ok v | Err m | Abort m | Return v*)
(*                                                                         *)
(* `Expect(f, vars)` is the single source of truth: given the frame of the *)
(* construct on top of the stack (its node, the outcomes of the children   *)
(* evaluated so far, target operations done) it says what the construct    *)
(* must do next.  The model-checking specification (MCCore) *executes*     *)
(* Expect; the trace specification (TraceCore) *compares* every event      *)
(* recorded from the real interpreter with it.                             *)
(*                                                                         *)
(* AST (k = kind; mirrors src/compiler/expression/*.rs after desugaring):  *)
(*   lit v | noop | var x | qv x p | q pre p | group e | block s | arr e   *)
(*   obj ks es | if c t he e | op o l r | not e | asg tg e | asg2 ok er e  *)
(*   abort hm m | ret e | call f cls a [q] [cl]                            *)
(* Assignment target tg: [tk "var", x, p] | [tk "ext", pre, p] | [tk "noop"]*)
(***************************************************************************)
EXTENDS Kinds

(* ---------- outcomes (ExpressionError in expression_error.rs) ---------- *)
OkO(v)        == [o |-> "ok", v |-> v]
ErrO(m)       == [o |-> "err", m |-> m]
AbortO(hm, m) == [o |-> "abort", hm |-> hm, m |-> m]     \* hm: has message
RetO(v)       == [o |-> "ret", v |-> v]
IsOk(x)  == x.o = "ok"
IsCtl(x) == x.o \in {"abort", "ret"}

(* ---------- frames ---------- *)
\* n    node being evaluated
\* acc  outcomes of the children evaluated so far, in evaluation order
\* t    number of target operations performed by this construct so far
\* tv   value obtained by the last target read/remove of this construct
\* sv   variables at entry (closure-taking calls: parameter scoping, C13)
\* it   completed closure iterations; j statements done in the current one
\* vals values of the completed iterations
NewFrame(n, vars) == [n |-> n, acc |-> <<>>, t |-> 0, tv |-> Null, sv |-> vars,
                      it |-> 0, j |-> 0, vals |-> <<>>]

VarOrNull(vars, x) == IF x \in DOMAIN vars THEN vars[x] ELSE Null

(* ---------- what a construct may do next ---------- *)
DoEnter(n)          == [a |-> "enter", n |-> n]
\* exit with one of the tags in `allow`; hv: the value/message is prescribed
DoExit(allow, hv, v) == [a |-> "exit", allow |-> allow, hv |-> hv, v |-> v]
ExitOk(v)           == DoExit({"ok"}, TRUE, OkO(v))
ExitOkBound         == DoExit({"ok"}, FALSE, Null)
ExitErrBound        == DoExit({"err"}, FALSE, Null)
ExitOkOrErrBound    == DoExit({"ok", "err"}, FALSE, Null)
\* propagate a child's non-ok outcome unchanged (the `?` operator)
Propagate(x)        == [a |-> "exit", allow |-> {x.o}, hv |-> TRUE, v |-> x]
DoTarget(op, pre, p) == [a |-> "target", op |-> op, pre |-> pre, p |-> p]

Last(acc) == acc[Len(acc)]
Bad(acc)  == Len(acc) > 0 /\ ~IsOk(Last(acc))

\* evaluate `children` left to right; a non-ok child ends the construct
SeqRule(children, acc, finish) ==
  IF Bad(acc) THEN Propagate(Last(acc))
  ELSE IF Len(acc) < Len(children) THEN DoEnter(children[Len(acc) + 1])
  ELSE finish

Vals(acc) == [j \in 1..Len(acc) |-> acc[j].v]

ObjOf(keys, vals) == Obj([f \in {keys[j] : j \in 1..Len(keys)} |->
                           vals[CHOOSE j \in 1..Len(keys) : keys[j] = f]])

(* ---------- iteration over collections (Value::into_iter(false)) ---------- *)
\* items of a collection in iteration order: object keys sorted (BTreeMap), array by index.
\* The order of keys is supplied by the caller as a sorted sequence (strings are atomic in TLC);
\* the model only needs the *number* of items and, per item, key/index and value.
ItemCount(v) == CASE IsObj(v) -> Cardinality(DOMAIN v.m) [] IsArr(v) -> Len(v.e) [] OTHER -> 0

(* ---------- function classes ---------- *)
\* n.cls \in {"pure", "del", "exists", "iter"}; "iter" = for_each / filter / map_keys / map_values
IterFns == {"for_each", "filter", "map_keys", "map_values"}

(* ---------- the rule table ---------- *)
ExpectIf(f) ==
  LET n == f.n  acc == f.acc  np == Len(n.c) IN
  IF Bad(acc) THEN Propagate(Last(acc))
  ELSE IF Len(acc) < np THEN DoEnter(n.c[Len(acc) + 1])
  ELSE LET pv == acc[np].v IN
    IF ~IsBool(pv) THEN ExitErrBound                        \* try_boolean()? fails
    ELSE LET br == IF pv.v THEN n.t ELSE n.e
             jd == Len(acc) - np IN
         IF ~pv.v /\ ~n.he THEN ExitOk(Null)                \* missing else => null
         ELSE IF jd < Len(br) THEN DoEnter(br[jd + 1])
         ELSE ExitOk(Last(acc).v)

ExpectOp(f) ==
  LET n == f.n  acc == f.acc IN
  CASE n.o = "err" ->
         IF Len(acc) = 0 THEN DoEnter(n.l)
         ELSE IF Len(acc) = 1 THEN
                 (CASE acc[1].o = "ok"  -> ExitOk(acc[1].v)            \* rhs not evaluated
                    [] acc[1].o = "err" -> DoEnter(n.r)
                    [] OTHER            -> Propagate(acc[1]))          \* abort / return pass through
         ELSE (IF IsOk(acc[2]) THEN ExitOk(acc[2].v) ELSE Propagate(acc[2]))
    [] n.o = "or" ->
         IF Len(acc) = 0 THEN DoEnter(n.l)
         ELSE IF Len(acc) = 1 THEN
                 (IF ~IsOk(acc[1]) THEN Propagate(acc[1])
                  ELSE IF Truthy(acc[1].v) THEN ExitOk(acc[1].v)       \* short circuit
                  ELSE DoEnter(n.r))
         ELSE (IF IsOk(acc[2]) THEN ExitOk(acc[2].v) ELSE Propagate(acc[2]))
    [] n.o = "and" ->
         IF Len(acc) = 0 THEN DoEnter(n.l)
         ELSE IF Len(acc) = 1 THEN
                 (IF ~IsOk(acc[1]) THEN Propagate(acc[1])
                  ELSE IF Falsy(acc[1].v) THEN ExitOk(Bool(FALSE))     \* short circuit
                  ELSE DoEnter(n.r))
         ELSE (IF ~IsOk(acc[2]) THEN Propagate(acc[2])
               \* lhs is truthy here: null/false rhs => false; boolean lhs and rhs => conjunction;
               \* anything else is a type error of try_and
               ELSE IF Falsy(acc[2].v) /\ IsBool(acc[1].v) THEN ExitOk(Bool(FALSE))
               ELSE IF IsBool(acc[1].v) /\ IsBool(acc[2].v) THEN ExitOk(Bool(acc[1].v.v /\ acc[2].v.v))
               ELSE ExitErrBound)
    [] OTHER ->   \* strict binary operators: both operands, then the operation (Ops.tla decides values)
         SeqRule(<<n.l, n.r>>, acc, ExitOkOrErrBound)

\* assignment targets (Target::insert in assignment.rs)
TargetSteps(tg) == IF tg.tk = "ext" THEN 1 ELSE 0

ExpectAsg(f) ==
  LET n == f.n  acc == f.acc IN
  IF Len(acc) = 0 THEN DoEnter(n.e)
  ELSE IF ~IsOk(acc[1]) THEN Propagate(acc[1])
  ELSE IF f.t < TargetSteps(n.tg) THEN DoTarget("ins", n.tg.pre, n.tg.p)
  ELSE ExitOk(acc[1].v)

\* ok, err = e   (Variant::Infallible)
ExpectAsg2(f) ==
  LET n == f.n  acc == f.acc
      tgs == <<n.ok, n.er>>
      exts == SelectSeq(tgs, LAMBDA g : g.tk = "ext") IN
  IF Len(acc) = 0 THEN DoEnter(n.e)
  ELSE IF IsCtl(acc[1]) THEN Propagate(acc[1])            \* abort / return are not errors (C06, C07)
  ELSE IF f.t < Len(exts) THEN DoTarget("ins", exts[f.t + 1].pre, exts[f.t + 1].p)
  ELSE IF IsOk(acc[1]) THEN ExitOk(acc[1].v)
  ELSE ExitOk(Str(acc[1].m))                               \* the message string

ExpectAbort(f) ==
  LET n == f.n  acc == f.acc IN
  IF ~n.hm THEN DoExit({"abort"}, TRUE, AbortO(FALSE, ""))
  ELSE IF Len(acc) = 0 THEN DoEnter(n.m)
  ELSE IF ~IsOk(acc[1]) THEN Propagate(acc[1])
  ELSE IF IsBytes(acc[1].v) /\ "s" \in DOMAIN acc[1].v
       THEN DoExit({"abort"}, TRUE, AbortO(TRUE, acc[1].v.s))
       ELSE IF IsBytes(acc[1].v) THEN DoExit({"abort"}, FALSE, Null)
       ELSE ExitErrBound

ExpectRet(f) ==
  LET acc == f.acc IN
  IF Len(acc) = 0 THEN DoEnter(f.n.e)
  ELSE IF ~IsOk(acc[1]) THEN Propagate(acc[1])
  ELSE DoExit({"ret"}, TRUE, RetO(acc[1].v))

\* FunctionCall::resolve around the function's own resolve.  Errors of arguments are
\* re-worded ("function call error for ..."), so only the tag is prescribed for them;
\* abort passes through; a `return` raised in an argument ends the program (C06).
PropagateCall(x) == IF x.o = "err" THEN ExitErrBound ELSE Propagate(x)

ExpectCall(f, vars) ==
  LET n == f.n  acc == f.acc  na == Len(n.a) IN
  IF f.it = 0 /\ f.j = 0 /\ Len(acc) <= na /\ Bad(acc) THEN PropagateCall(Last(acc))
  ELSE IF Len(acc) < na THEN DoEnter(n.a[Len(acc) + 1])
  ELSE CASE n.cls = "pure"   -> ExitOkOrErrBound
         [] n.cls = "exists" ->
              IF n.q.tk = "ext" /\ f.t = 0 THEN DoTarget("get", n.q.pre, n.q.p) ELSE ExitOkBound
         [] n.cls = "del" ->
              IF n.q.tk = "ext" /\ f.t = 0 THEN DoTarget("rem", n.q.pre, n.q.p)
              ELSE IF n.q.tk = "ext" THEN ExitOk(f.tv)
              ELSE ExitOk(GetOrNull(VarOrNull(vars, n.q.x), n.q.p))
         [] n.cls = "iter" ->
              \* acc[na] is the collection; one run of the closure block per item
              LET coll  == acc[1].v
                  items == ItemCount(coll)
                  body  == n.cl.s IN
              IF f.j > 0 /\ ~IsOk(Last(acc)) /\ Last(acc).o # "ret"
                 THEN PropagateCall(Last(acc))                 \* error / abort inside the closure
              ELSE IF f.it < items /\ ~(f.j > 0 /\ Last(acc).o = "ret") /\ f.j < Len(body)
                 THEN DoEnter(body[f.j + 1])
              ELSE IF f.it < items THEN [a |-> "iterdone"]      \* internal: close the iteration
              ELSE ExitOkOrErrBound

Expect(f, vars) ==
  LET n == f.n  acc == f.acc IN
  CASE n.k = "lit"   -> ExitOk(n.v)
    [] n.k = "noop"  -> ExitOk(Null)
    [] n.k = "var"   -> ExitOk(VarOrNull(vars, n.x))
    [] n.k = "qv"    -> ExitOk(GetOrNull(VarOrNull(vars, n.x), n.p))
    [] n.k = "q"     -> IF f.t = 0 THEN DoTarget("get", n.pre, n.p) ELSE ExitOk(f.tv)
    [] n.k = "group" -> IF Len(acc) = 0 THEN DoEnter(n.e)
                        ELSE (IF IsOk(acc[1]) THEN ExitOk(acc[1].v) ELSE Propagate(acc[1]))
    [] n.k = "block" -> SeqRule(n.s, acc, IF Len(acc) = 0 THEN ExitOk(Null) ELSE ExitOk(Last(acc).v))
    [] n.k = "prog"  -> SeqRule(n.s, acc, IF Len(acc) = 0 THEN ExitOk(Null) ELSE ExitOk(Last(acc).v))
    [] n.k = "arr"   -> SeqRule(n.e, acc, ExitOk(Arr(Vals(acc))))
    [] n.k = "obj"   -> SeqRule(n.es, acc, ExitOk(ObjOf(n.ks, Vals(acc))))
    [] n.k = "if"    -> ExpectIf(f)
    [] n.k = "op"    -> ExpectOp(f)
    [] n.k = "not"   -> IF Len(acc) = 0 THEN DoEnter(n.e)
                        ELSE IF ~IsOk(acc[1]) THEN Propagate(acc[1])
                        ELSE IF IsBool(acc[1].v) THEN ExitOk(Bool(~acc[1].v.v)) ELSE ExitErrBound
    [] n.k = "asg"   -> ExpectAsg(f)
    [] n.k = "asg2"  -> ExpectAsg2(f)
    [] n.k = "abort" -> ExpectAbort(f)
    [] n.k = "ret"   -> ExpectRet(f)
    [] n.k = "call"  -> ExpectCall(f, vars)

(* ---------- effects of an exit on the variable store ---------- *)
SetVar(vars, x, v) == [y \in (DOMAIN vars) \cup {x} |-> IF y = x THEN v ELSE vars[y]]
UnsetVar(vars, x)  == [y \in (DOMAIN vars) \ {x} |-> vars[y]]

StoreTarget(vars, tg, v) ==
  IF tg.tk = "var"
  THEN SetVar(vars, tg.x, IF tg.p = <<>> THEN v ELSE Insert(VarOrNull(vars, tg.x), tg.p, v))
  ELSE vars

DelCompact(f) == IF Len(f.n.a) > 0 /\ Len(f.acc) > 0 /\ IsOk(f.acc[1]) /\ IsBool(f.acc[1].v)
                 THEN f.acc[1].v.v ELSE FALSE

\* The value stored in `ok` by a failed infallible assignment is the default value of the
\* right-hand side's type (Assignment::new), known when the node carries the compiler's type.
HasDefault(n) == "st" \in DOMAIN n.e
DefaultFor(n) == DefaultOfKind(n.e.st.kd)
ExitVars(f, out, vars) ==
  LET n == f.n IN
  CASE n.k = "asg" /\ IsOk(out) -> StoreTarget(vars, n.tg, out.v)
    [] n.k = "asg2" /\ IsOk(out) /\ Len(f.acc) = 1 /\ IsOk(f.acc[1]) ->
         StoreTarget(StoreTarget(vars, n.ok, f.acc[1].v), n.er, Null)
    [] n.k = "asg2" /\ IsOk(out) /\ Len(f.acc) = 1 /\ f.acc[1].o = "err" /\ HasDefault(n) ->
         StoreTarget(StoreTarget(vars, n.ok, DefaultFor(n)), n.er, Str(f.acc[1].m))
    [] n.k = "call" /\ n.cls = "del" /\ n.q.tk = "var" /\ n.q.x \in DOMAIN vars ->
         SetVar(vars, n.q.x, Remove(vars[n.q.x], n.q.p, DelCompact(f)).val)
    [] OTHER -> vars

\* Runtime::resolve: how the outcome of the root block ends the run
FinishOf(out) == CASE out.o = "ok"    -> [r |-> "ok", v |-> out.v]
                   [] out.o = "ret"   -> [r |-> "ok", v |-> out.v]
                   [] out.o = "abort" -> [r |-> "abort", hm |-> out.hm, m |-> out.m]
                   [] out.o = "err"   -> [r |-> "error"]

=============================================================================
