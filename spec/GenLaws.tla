------------------------------- MODULE GenLaws -------------------------------
(* Alphabets and small collections for the law engines, printed once. Code points as numbers. *)
EXTENDS Naturals, Sequences, Json, TLC
\* a B sharp-s dotted-I space tab newline comma e-acute(2 bytes) emoji(4 bytes) nbsp em-space
StrAlphabet == <<97, 66, 223, 304, 32, 9, 10, 44, 233, 128512, 160, 8195, 95, 45>>
\* keys / values for key-value, logfmt, csv round trips: a space " = \ newline tab : , e-acute
KvAlphabet == <<97, 32, 34, 61, 92, 10, 9, 58, 44, 233>>
Delims == <<44, 32, 97, 233>>
Bases == <<2, 3, 8, 10, 16, 35, 36>>
ASSUME PrintT(<<"STR_ALPHABET", ToJson(StrAlphabet)>>)
ASSUME PrintT(<<"KV_ALPHABET", ToJson(KvAlphabet)>>)
ASSUME PrintT(<<"DELIMS", ToJson(Delims)>>)
ASSUME PrintT(<<"BASES", ToJson(Bases)>>)
VARIABLE dummy
Init == dummy = 0
Next == UNCHANGED dummy
Spec == Init /\ [][Next]_dummy
=============================================================================
