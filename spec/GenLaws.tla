------------------------------- MODULE GenLaws -------------------------------
(* Alphabets and small collections for the law engines, printed once. Code points as numbers. *)
EXTENDS Naturals, Sequences, Json, TLC
\* a B sharp-s dotted-I space tab newline comma e-acute(2 bytes) emoji(4 bytes) nbsp em-space
StrAlphabet == <<97, 66, 223, 304, 32, 9, 10, 44, 233, 128512, 160, 8195, 95, 45>>
\* keys / values for key-value, logfmt, csv round trips: a space " = \ newline tab : , e-acute
KvAlphabet == <<97, 32, 34, 61, 92, 10, 9, 58, 44, 233>>
Delims == <<44, 32, 97, 233>>
Bases == <<2, 3, 8, 10, 16, 35, 36>>
ASSUME PrintT(<<"STR_ALPHABET", ToJson(StrAlphabet)>>)
ASSUME PrintT(<<"KV_ALPHABET", ToJson(KvAlphabet)>>)
ASSUME PrintT(<<"DELIMS", ToJson(Delims)>>)
ASSUME PrintT(<<"BASES", ToJson(Bases)>>)
\* C22: byte values for binary inputs (NUL, control, space, %, +, /, =, digits/letters, DEL, 0x80, 0xC3 0xA9 = e-acute, 0xFF, LZ4 magic)
ByteAlphabet == <<0, 10, 32, 37, 43, 47, 61, 48, 65, 97, 122, 127, 128, 195, 169, 255, 4, 34, 77, 24>>
\* text code points for percent / punycode / charset inputs
TextAlphabet == <<97, 90, 48, 32, 37, 38, 43, 47, 63, 35, 60, 126, 45, 46, 233, 223, 8364, 128512, 1103, 20013, 127>>
PercentSets == <<"NON_ALPHANUMERIC", "CONTROLS", "FRAGMENT", "QUERY", "SPECIAL", "PATH", "USERINFO", "COMPONENT", "WWW_FORM_URLENCODED">>
\* C23: algorithm |-> <<key bytes, iv bytes>> as documented by `encrypt`
Ciphers == [ a \in {"AES-256-CFB", "AES-192-CFB", "AES-128-CFB", "AES-256-OFB", "AES-192-OFB", "AES-128-OFB", "AES-128-SIV", "AES-256-SIV",
                     "AES-256-CTR", "AES-192-CTR", "AES-128-CTR", "AES-256-CTR-LE", "AES-192-CTR-LE", "AES-128-CTR-LE",
                     "AES-256-CTR-BE", "AES-192-CTR-BE", "AES-128-CTR-BE",
                     "AES-256-CBC-PKCS7", "AES-192-CBC-PKCS7", "AES-128-CBC-PKCS7", "AES-256-CBC-ANSIX923", "AES-192-CBC-ANSIX923", "AES-128-CBC-ANSIX923",
                     "AES-256-CBC-ISO7816", "AES-192-CBC-ISO7816", "AES-128-CBC-ISO7816", "AES-256-CBC-ISO10126", "AES-192-CBC-ISO10126", "AES-128-CBC-ISO10126",
                     "CHACHA20-POLY1305", "XCHACHA20-POLY1305", "XSALSA20-POLY1305"} |->
             IF a = "AES-256-SIV" THEN <<64, 16>> ELSE IF a = "AES-128-SIV" THEN <<32, 16>>
             ELSE IF a = "CHACHA20-POLY1305" THEN <<32, 12>> ELSE IF a \in {"XCHACHA20-POLY1305", "XSALSA20-POLY1305"} THEN <<32, 24>>
             ELSE IF a \in {"AES-256-CFB", "AES-256-OFB", "AES-256-CTR", "AES-256-CTR-LE", "AES-256-CTR-BE", "AES-256-CBC-PKCS7", "AES-256-CBC-ANSIX923",
                            "AES-256-CBC-ISO7816", "AES-256-CBC-ISO10126"} THEN <<32, 16>>
             ELSE IF a \in {"AES-192-CFB", "AES-192-OFB", "AES-192-CTR", "AES-192-CTR-LE", "AES-192-CTR-BE", "AES-192-CBC-PKCS7", "AES-192-CBC-ANSIX923",
                            "AES-192-CBC-ISO7816", "AES-192-CBC-ISO10126"} THEN <<24, 16>>
             ELSE <<16, 16>> ]
\* IV / nonce and key shapes beyond random ones: counters about to wrap (CTR modes add the block number to the IV), all-zero, all-one
IvShapes == <<"random", "zeros", "ones", "low8-ones", "low4-ones", "last-byte-fe", "low8-ones-but-last-fe", "high8-ones", "low-half-ones-high-half-random">>
KeyShapes == <<"random", "zeros", "ones">>
ASSUME PrintT(<<"IV_SHAPES", ToJson(IvShapes)>>)
ASSUME PrintT(<<"KEY_SHAPES", ToJson(KeyShapes)>>)
IpModes == [m \in {"aes128", "pfx"} |-> IF m = "aes128" THEN 16 ELSE 32]
\* C21: code points for JSON strings and keys (quote, backslash, slash, controls incl. NUL, DEL, U+2028, BMP, astral)
JsonAlphabet == <<97, 34, 92, 47, 0, 8, 10, 13, 31, 127, 8232, 233, 65533, 128512, 32, 123, 91, 44, 58>>
ASSUME PrintT(<<"BYTE_ALPHABET", ToJson(ByteAlphabet)>>)
ASSUME PrintT(<<"TEXT_ALPHABET", ToJson(TextAlphabet)>>)
ASSUME PrintT(<<"PERCENT_SETS", ToJson(PercentSets)>>)
ASSUME PrintT(<<"CIPHERS", ToJson(Ciphers)>>)
ASSUME PrintT(<<"IP_MODES", ToJson(IpModes)>>)
ASSUME PrintT(<<"JSON_ALPHABET", ToJson(JsonAlphabet)>>)
VARIABLE dummy
Init == dummy = 0
Next == UNCHANGED dummy
Spec == Init /\ [][Next]_dummy
=============================================================================
