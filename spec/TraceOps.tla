------------------------------ MODULE TraceOps ------------------------------
(***************************************************************************)
(* C10 (comparisons are consistent; integer equality is exact) and         *)
(* C11 (arithmetic follows the documented numeric semantics), evaluated on *)
(* the results of the REAL operators, obtained by running compiled         *)
(* programs `.l OP .r` on TLC-chosen operand pairs.  Each record holds the *)
(* ten results for (l, r) and - for numeric pairs - the ten results for    *)
(* the operands converted to float (`conv`), which is the *definition* of  *)
(* mixed integer/float arithmetic.                                          *)
(***************************************************************************)
EXTENDS Ops, Json, IOUtils

Rec == ndJsonDeserialize(IOEnv.TRACE)
VARIABLES l, viols, cnt
ovars == <<l, viols, cnt>>
Ev == Rec[l]
Bump(c, name) == [c EXCEPT ![name] = @ + 1]

IsOkB(r) == r.k = "ok" /\ r.v.t = "bool"
BoolOf(r) == r.v.v
Kind2(a, b) == a.t \o "/" \o b.t
Comparable(a, b) == a.t = b.t /\ a.t \in {"int", "float", "bytes", "ts"}

\* the reference order / equality of two operands of the same comparable kind
RefLt(a, b) == CASE a.t = "int" -> LtW(a.w, b.w) [] a.t = "float" -> FLt(a.b, b.b)
                 [] a.t = "bytes" -> BytesLt(a.c, b.c) [] a.t = "ts" -> LtW(a.w, b.w)
RefEq(a, b) == CASE a.t = "int" -> a.w = b.w [] a.t = "float" -> FEq(a.b, b.b)
                 [] a.t = "bytes" -> a.c = b.c [] a.t = "ts" -> a.w = b.w

(* ---------- C10 ---------- *)
C10Laws(r) ==
  LET a == r.l  b == r.r  o == r.ops IN
  IF Comparable(a, b) THEN
     IF ~(\A n \in {"lt", "le", "gt", "ge", "eq", "ne"} : IsOkB(o[n])) THEN << "ComparisonFails" >>
     ELSE LET lt == BoolOf(o.lt) le == BoolOf(o.le) gt == BoolOf(o.gt) ge == BoolOf(o.ge) eq == BoolOf(o.eq) ne == BoolOf(o.ne) IN
          (IF (IF lt THEN 1 ELSE 0) + (IF eq THEN 1 ELSE 0) + (IF gt THEN 1 ELSE 0) = 1 THEN <<>> ELSE << "Trichotomy" >>)
          \o (IF ne = ~eq THEN <<>> ELSE << "NeIsNotEq" >>)
          \o (IF le = (lt \/ eq) /\ ge = (gt \/ eq) THEN <<>> ELSE << "LeGeAgree" >>)
          \o (IF eq = RefEq(a, b) THEN <<>> ELSE << (IF a.t = "int" THEN "IntegerEqualityExact" ELSE "EqualityMatchesReference") >>)
          \o (IF lt = RefLt(a, b) /\ gt = RefLt(b, a) THEN <<>> ELSE << "OrderMatchesReference" >>)
  ELSE IF a.t \in {"int", "float"} /\ b.t \in {"int", "float"} THEN
     \* mixed integer / float: `==` is the float comparison of the converted integer
     (IF IsOkB(o.eq) /\ IsOkB(r.conv.eq) /\ BoolOf(o.eq) = BoolOf(r.conv.eq) /\ IsOkB(o.ne) /\ BoolOf(o.ne) = ~BoolOf(o.eq)
        THEN <<>> ELSE << "MixedEquality" >>)
  ELSE
     \* structural equality of everything else (same encoding = same value)
     (IF IsOkB(o.eq) /\ IsOkB(o.ne) /\ BoolOf(o.ne) = ~BoolOf(o.eq) /\ (BoolOf(o.eq) = (a = b)) THEN <<>> ELSE << "StructuralEquality" >>)

(* ---------- C11 ---------- *)
IsZeroNum(v) == (v.t = "int" /\ v.w = Zero) \/ (v.t = "float" /\ FIsZero(v.b))
NoNaN(o) == \A n \in {"add", "sub", "mul", "div"} : (o[n].k = "ok" /\ o[n].v.t = "float") => ~FIsNaN(o[n].v.b)
SameRes(x, y) == x.k = y.k /\ (x.k = "ok" => x.v = y.v)

C11Laws(r) ==
  LET a == r.l  b == r.r  o == r.ops IN
  (IF NoNaN(o) THEN <<>> ELSE << "NeverNaN" >>)
  \o
  (CASE a.t = "int" /\ b.t = "int" ->
          (IF o.add.k = "ok" /\ o.add.v = [t |-> "int", w |-> AddW(a.w, b.w)] THEN <<>> ELSE << "IntAddWraps" >>)
          \o (IF o.sub.k = "ok" /\ o.sub.v = [t |-> "int", w |-> SubW(a.w, b.w)] THEN <<>> ELSE << "IntSubWraps" >>)
          \o (IF o.mul.k = "ok" /\ o.mul.v = [t |-> "int", w |-> MulW(a.w, b.w)] THEN <<>> ELSE << "IntMulWraps" >>)
          \o (IF b.w = Zero THEN (IF o.div.k = "err" THEN <<>> ELSE << "DivByZeroFails" >>)
              ELSE (IF o.div.k = "ok" /\ o.div.v.t = "float" /\ SameRes(o.div, r.conv.div) THEN <<>> ELSE << "IntDivIsFloatDivision" >>))
     [] a.t \in {"int", "float"} /\ b.t \in {"int", "float"} ->
          \* at least one float: the operation on the converted integer, bit for bit (or the same failure)
          (IF \A n \in {"add", "sub", "mul"} : SameRes(o[n], r.conv[n]) THEN <<>> ELSE << "MixedIsFloatOfConverted" >>)
          \o (IF IsZeroNum(b) THEN (IF o.div.k = "err" THEN <<>> ELSE << "DivByZeroFails" >>)
              ELSE (IF SameRes(o.div, r.conv.div) /\ (o.div.k = "ok" => o.div.v.t = "float") THEN <<>> ELSE << "MixedIsFloatOfConverted" >>))
          \o (IF \A n \in {"add", "sub", "mul", "div"} : (o[n].k = "ok" => o[n].v.t = "float") THEN <<>> ELSE << "FloatResultKind" >>)
     [] a.t = "bytes" /\ b.t = "bytes" ->
          (IF o.add.k = "ok" /\ o.add.v = [t |-> "bytes", c |-> a.c \o b.c] THEN <<>> ELSE << "StringConcat" >>)
     [] a.t = "bytes" /\ b.t = "null" -> (IF o.add.k = "ok" /\ o.add.v = a THEN <<>> ELSE << "NullIsEmptyString" >>)
     [] a.t = "null" /\ b.t = "bytes" -> (IF o.add.k = "ok" /\ o.add.v = b THEN <<>> ELSE << "NullIsEmptyString" >>)
     [] a.t = "bytes" /\ b.t = "int" /\ (IsSmallNat(b.w) \/ NegativeW(b.w)) ->
          (IF o.mul.k = "ok" /\ o.mul.v = [t |-> "bytes", c |-> Repeat(a.c, IF NegativeW(b.w) THEN 0 ELSE SmallNat(b.w))]
             THEN <<>> ELSE << "StringRepeat" >>)
     [] OTHER -> <<>>)

T_Pair ==
  /\ l <= Len(Rec) /\ Ev.e = "pair"
  /\ LET c10 == C10Laws(Ev)  c11 == C11Laws(Ev)
         panics == {n \in DOMAIN Ev.ops : Ev.ops[n].k = "panic"}
         mk(prop, rule) == [prop |-> prop, rule |-> rule, at |-> Kind2(Ev.l, Ev.r), prog |-> 0, line |-> l,
                            what |-> [l |-> Ev.l, r |-> Ev.r]]
     IN
     /\ viols' = viols
                 \o (IF c10 = <<>> THEN <<>> ELSE << mk("C10", c10[1]) >>)
                 \o (IF c11 = <<>> THEN <<>> ELSE << mk("C11", c11[1]) >>)
                 \o (IF panics = {} THEN <<>> ELSE << mk("C04", "NoPanic") >>)
     /\ cnt' = LET c1 == Bump(cnt, "pairs")
                   c2 == IF Comparable(Ev.l, Ev.r) THEN Bump(c1, "comparable_pairs") ELSE c1
                   c3 == IF Ev.l.t \in {"int", "float"} /\ Ev.r.t \in {"int", "float"} THEN Bump(c2, "numeric_pairs") ELSE c2
               IN c3
  /\ l' = l + 1

Init == l = 1 /\ viols = <<>> /\ cnt = [c \in {"pairs", "comparable_pairs", "numeric_pairs"} |-> 0]
Next == T_Pair
TraceSpec == Init /\ [][Next]_ovars
Report == (l = Len(Rec) + 1) =>
   PrintT(<<"RESULT", ToJson([consumed |-> l - 1, viols |-> viols, divs |-> <<>>, cnt |-> cnt])>>)
TraceAccepted == \/ TLCGet("stats").diameter - 1 = Len(Rec)
                 \/ PrintT(<<"STUCK", TLCGet("stats").diameter, Len(Rec)>>)
=============================================================================
