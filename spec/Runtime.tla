------------------------------ MODULE Runtime ------------------------------
(***************************************************************************)
(* C14 at design level: several threads evaluate ONE immutable compiled    *)
(* program, each with its own runtime state (variables) and its own        *)
(* target (event), one interpreter step at a time, in any interleaving;    *)
(* a thread may process several events one after the other, calling        *)
(* Runtime::clear in between.  The frame condition of the design - a step  *)
(* of thread t reads the shared program and reads/writes only t's own      *)
(* variables and target - is what makes every run's outcome a function of  *)
(* its event alone (Deterministic).                                        *)
(*                                                                         *)
(* Named deviations (disabled unless the constant says otherwise) show     *)
(* that the invariant is not vacuous: Shared = TRUE lets the arithmetic    *)
(* step go through a scratch cell shared by all threads (a static cache    *)
(* in a function); NoClear = TRUE lets a thread start its next event       *)
(* without clearing its variables.                                         *)
(***************************************************************************)
EXTENDS Naturals, Sequences, FiniteSets, TLC

CONSTANTS Threads,    \* e.g. {t1, t2, t3}
          Inputs,     \* values of the event field the program reads, e.g. {0, 1}
          PerThread,  \* how many events each thread processes
          Shared, NoClear

\* The program (immutable, shared): x = .a ; if x unset before -> fine ; y = (y or 0) + x ; .b = y + 1 ; result y
\* `y` is read before it is written, so leftover variables from an earlier event would be visible.
Prog == <<"load", "acc", "fetch", "store", "ret">>

VARIABLES pc,       \* pc[t]   index of the next instruction, 0 = idle
          vars,     \* vars[t] thread-local variables [x, y] (0 = unset)
          ev,       \* ev[t]   the event being processed: [a, b]
          done,     \* done[t] results so far: sequence of [a, b, result]
          scratch   \* the shared cell (only used when Shared)

rvars == <<pc, vars, ev, done, scratch>>

Unset == [x |-> 0, y |-> 0]

Init == /\ pc = [t \in Threads |-> 0]
        /\ vars = [t \in Threads |-> Unset]
        /\ ev = [t \in Threads |-> [a |-> 0, b |-> 0]]
        /\ done = [t \in Threads |-> <<>>]
        /\ scratch = 0

\* Runtime::resolve on a fresh or cleared runtime
Start(t, a) == /\ pc[t] = 0 /\ Len(done[t]) < PerThread
               /\ (NoClear \/ vars[t] = Unset)
               /\ pc' = [pc EXCEPT ![t] = 1]
               /\ ev' = [ev EXCEPT ![t] = [a |-> a, b |-> 0]]
               /\ UNCHANGED <<vars, done, scratch>>

Step(t) ==
  /\ pc[t] \in 1..Len(Prog)
  /\ LET ins == Prog[pc[t]] IN
     CASE ins = "load"  -> /\ vars' = [vars EXCEPT ![t].x = ev[t].a]
                           /\ UNCHANGED <<ev, done, scratch>>
       [] ins = "acc"   -> IF Shared
                           THEN \* the deviation: the sum is parked in a cell every thread uses ...
                                /\ scratch' = vars[t].y + vars[t].x
                                /\ UNCHANGED <<vars, ev, done>>
                           ELSE /\ vars' = [vars EXCEPT ![t].y = vars[t].y + vars[t].x]
                                /\ UNCHANGED <<ev, done, scratch>>
       [] ins = "fetch" -> IF Shared
                           THEN \* ... and picked up again one step later
                                /\ vars' = [vars EXCEPT ![t].y = scratch]
                                /\ UNCHANGED <<ev, done, scratch>>
                           ELSE UNCHANGED <<vars, ev, done, scratch>>
       [] ins = "store" -> /\ ev' = [ev EXCEPT ![t].b = vars[t].y + 1]
                           /\ UNCHANGED <<vars, done, scratch>>
       [] ins = "ret"   -> /\ done' = [done EXCEPT ![t] = Append(@, [a |-> ev[t].a, b |-> ev[t].b, result |-> vars[t].y])]
                           /\ UNCHANGED <<vars, ev, scratch>>
  /\ pc' = [pc EXCEPT ![t] = IF pc[t] = Len(Prog) THEN 0 ELSE pc[t] + 1]

\* Runtime::clear between events
Clear(t) == /\ pc[t] = 0 /\ vars[t] # Unset
            /\ vars' = [vars EXCEPT ![t] = Unset]
            /\ UNCHANGED <<pc, ev, done, scratch>>

Next == \E t \in Threads : (\E a \in Inputs : Start(t, a)) \/ Step(t) \/ Clear(t)
Spec == Init /\ [][Next]_rvars

\* the sequential meaning of the program on an event with .a = a
Meaning(a) == [a |-> a, b |-> a + 1, result |-> a]

\* every finished run, of every thread, in every interleaving and history, has the outcome the
\* event alone determines
Deterministic == \A t \in Threads : \A j \in 1..Len(done[t]) : done[t][j] = Meaning(done[t][j].a)

\* frame condition as an action property: a step of t leaves the other threads' state alone
Frame == [][\A t \in Threads : (pc'[t] # pc[t]) =>
              \A u \in Threads \ {t} : vars'[u] = vars[u] /\ ev'[u] = ev[u] /\ done'[u] = done[u]]_rvars
=============================================================================
