------------------------------ MODULE TraceDiag ------------------------------
(***************************************************************************)
(* C33 - every diagnostic the real compiler reports for a source text has  *)
(* labels that lie within the text on character boundaries, and rendering  *)
(* the diagnostics (plain and coloured) succeeds; and C04 for source       *)
(* texts: compiling, rendering and running never panics.                   *)
(* The well-formedness of a label is the action the specification allows;  *)
(* a `panic` outcome is explained by no action and becomes a witness.      *)
(***************************************************************************)
EXTENDS Naturals, Sequences, TLC, Json, IOUtils

Rec == ndJsonDeserialize(IOEnv.TRACE)
VARIABLES l, viols, cnt
dvars == <<l, viols, cnt>>
Ev == Rec[l]
Bump(c, name) == [c EXCEPT ![name] = @ + 1]

LabelOk(lb, len) == lb.s <= lb.e /\ lb.e <= len /\ lb.sb /\ lb.eb
DiagOk(d, len) == \A j \in 1..Len(d.labels) : LabelOk(d.labels[j], len)
IsPanic(s) == s # "ok" /\ s # "none" /\ s # "err"

Findings(r) ==
  (IF \A j \in 1..Len(r.diags) : DiagOk(r.diags[j], r.len) THEN <<>> ELSE << [prop |-> "C33", rule |-> "LabelsInSourceOnCharBoundaries"] >>)
  \o (IF IsPanic(r.render) \/ IsPanic(r.render_color) THEN << [prop |-> "C33", rule |-> "RenderSucceeds"] >> ELSE <<>>)
  \o (IF IsPanic(r.compile) THEN << [prop |-> "C04", rule |-> "CompileNeverPanics"] >> ELSE <<>>)
  \o (IF IsPanic(r.render) \/ IsPanic(r.render_color) THEN << [prop |-> "C04", rule |-> "RenderNeverPanics"] >> ELSE <<>>)
  \o (IF IsPanic(r.run) THEN << [prop |-> "C04", rule |-> "RunNeverPanics"] >> ELSE <<>>)

\* which diagnostic code the first bad label belongs to (names the finding)
BadCode(r) == LET bad == {j \in 1..Len(r.diags) : ~DiagOk(r.diags[j], r.len)}
              IN IF bad = {} THEN "none" ELSE ToString(r.diags[CHOOSE j \in bad : TRUE].code)

RECURSIVE AddAll(_, _)
AddAll(vs, fs) == IF fs = <<>> THEN vs
                  ELSE AddAll(Append(vs, [prop |-> Head(fs).prop, rule |-> Head(fs).rule,
                                          at |-> (IF Head(fs).rule = "LabelsInSourceOnCharBoundaries" THEN "E" \o BadCode(Ev) ELSE "source"),
                                          prog |-> Ev.id, line |-> l,
                                          what |-> [src |-> Ev.src, compile |-> Ev.compile, render |-> Ev.render, run |-> Ev.run]]), Tail(fs))

T_Diag ==
  /\ l <= Len(Rec) /\ Ev.e \in {"diag"}
  /\ viols' = AddAll(viols, Findings(Ev))
  /\ cnt' = LET c1 == Bump(cnt, "sources")
                c2 == IF Ev.accepted THEN Bump(c1, "accepted") ELSE c1
                c3 == IF Len(Ev.diags) > 0 THEN Bump(c2, "with_diagnostics") ELSE c2
            IN [c3 EXCEPT !.labels = @ + (LET S[j \in 0..Len(Ev.diags)] == IF j = 0 THEN 0 ELSE S[j - 1] + Len(Ev.diags[j].labels) IN S[Len(Ev.diags)])]
  /\ l' = l + 1

\* a source whose processing killed or hung the worker. A worker that the Rust runtime aborted for memory or stack
\* exhaustion (`why` from what it printed: "memory allocation of N bytes failed" / "has overflowed its stack") is
\* outside C04 by its statement (exhaustion of memory or stack is out of scope): counted, not reported.
Exhausted(o) == o.k = "died" /\ "why" \in DOMAIN o /\ o.why \in {"alloc", "stack"}
T_Lost ==
  /\ l <= Len(Rec) /\ Ev.e = "call"
  /\ viols' = IF Exhausted(Ev.out) THEN viols
              ELSE Append(viols, [prop |-> (IF Ev.out.k = "timeout" THEN "C05" ELSE "C04"), rule |-> "SourceProcessing:" \o Ev.out.k, at |-> "source",
                                  prog |-> 0, line |-> l, what |-> [src |-> Ev.src, out |-> Ev.out]])
  /\ cnt' = IF Exhausted(Ev.out) THEN Bump(Bump(cnt, "sources"), "exhausted") ELSE Bump(cnt, "sources")
  /\ l' = l + 1

Init == l = 1 /\ viols = <<>> /\ cnt = [c \in {"sources", "accepted", "with_diagnostics", "labels", "exhausted"} |-> 0]
Next == T_Diag \/ T_Lost
TraceSpec == Init /\ [][Next]_dvars
Report == (l = Len(Rec) + 1) =>
   PrintT(<<"RESULT", ToJson([consumed |-> l - 1, viols |-> viols, divs |-> <<>>, cnt |-> cnt])>>)
TraceAccepted == \/ TLCGet("stats").diameter - 1 = Len(Rec)
                 \/ PrintT(<<"STUCK", TLCGet("stats").diameter, Len(Rec)>>)
=============================================================================
