------------------------------- MODULE Codecs -------------------------------
(***************************************************************************)
(* Independent models of the byte-level text codecs (C22) and of numeric   *)
(* text (C29/C35), over sequences of byte values 0..255 and of code points.*)
(* Nothing here is derived from the implementation: UTF-8, base16, base64  *)
(* (RFC 4648, both alphabets, with and without padding) and the            *)
(* NON_ALPHANUMERIC percent-encoding are transcribed from their public      *)
(* definitions; compressors and ciphers have no model (round trip only).   *)
(***************************************************************************)
EXTENDS Ops

(* ---------- UTF-8 ---------- *)
Utf8(c) == IF c < 128 THEN <<c>>
           ELSE IF c < 2048 THEN <<192 + (c \div 64), 128 + (c % 64)>>
           ELSE IF c < 65536 THEN <<224 + (c \div 4096), 128 + ((c \div 64) % 64), 128 + (c % 64)>>
           ELSE <<240 + (c \div 262144), 128 + ((c \div 4096) % 64), 128 + ((c \div 64) % 64), 128 + (c % 64)>>
RECURSIVE Utf8Seq(_)
Utf8Seq(u) == IF u = <<>> THEN <<>> ELSE Utf8(Head(u)) \o Utf8Seq(Tail(u))
\* the bytes of a transported string: raw (`c`) when it is not UTF-8, else encoded from its code points
BytesOf(v) == IF "c" \in DOMAIN v THEN v.c ELSE Utf8Seq(v.u)

(* ---------- base16 ---------- *)
HexLower == <<48, 49, 50, 51, 52, 53, 54, 55, 56, 57, 97, 98, 99, 100, 101, 102>>
HexUpper == <<48, 49, 50, 51, 52, 53, 54, 55, 56, 57, 65, 66, 67, 68, 69, 70>>
RECURSIVE Base16(_)
Base16(b) == IF b = <<>> THEN <<>> ELSE <<HexLower[(Head(b) \div 16) + 1], HexLower[(Head(b) % 16) + 1]>> \o Base16(Tail(b))

(* ---------- base64 (RFC 4648 sections 4 and 5) ---------- *)
B64Index(n, urlsafe) == IF n < 26 THEN 65 + n ELSE IF n < 52 THEN 97 + (n - 26) ELSE IF n < 62 THEN 48 + (n - 52)
                        ELSE IF n = 62 THEN (IF urlsafe THEN 45 ELSE 43) ELSE (IF urlsafe THEN 95 ELSE 47)
RECURSIVE Base64(_, _, _)
Base64(b, urlsafe, pad) ==
  IF b = <<>> THEN <<>>
  ELSE IF Len(b) = 1 THEN <<B64Index(b[1] \div 4, urlsafe), B64Index((b[1] % 4) * 16, urlsafe)>> \o (IF pad THEN <<61, 61>> ELSE <<>>)
  ELSE IF Len(b) = 2 THEN <<B64Index(b[1] \div 4, urlsafe), B64Index((b[1] % 4) * 16 + (b[2] \div 16), urlsafe),
                            B64Index((b[2] % 16) * 4, urlsafe)>> \o (IF pad THEN <<61>> ELSE <<>>)
  ELSE <<B64Index(b[1] \div 4, urlsafe), B64Index((b[1] % 4) * 16 + (b[2] \div 16), urlsafe),
         B64Index((b[2] % 16) * 4 + (b[3] \div 64), urlsafe), B64Index(b[3] % 64, urlsafe)>> \o Base64(SubSeq(b, 4, Len(b)), urlsafe, pad)

(* ---------- percent-encoding, NON_ALPHANUMERIC set: every byte that is not an ASCII letter or digit ---------- *)
IsAlnum(c) == (c >= 48 /\ c <= 57) \/ (c >= 65 /\ c <= 90) \/ (c >= 97 /\ c <= 122)
RECURSIVE PercentNonAlnum(_)
PercentNonAlnum(b) == IF b = <<>> THEN <<>>
                      ELSE (IF IsAlnum(Head(b)) THEN <<Head(b)>> ELSE <<37, HexUpper[(Head(b) \div 16) + 1], HexUpper[(Head(b) % 16) + 1]>>)
                           \o PercentNonAlnum(Tail(b))
\* for every other set: alphanumerics are never encoded, every byte >= 128 and every control is, and the
\* output consists of bytes of the input and %XX triplets only - decoded by this reference decoder
IsHex(c) == (c >= 48 /\ c <= 57) \/ (c >= 65 /\ c <= 70) \/ (c >= 97 /\ c <= 102)
HexVal(c) == IF c <= 57 THEN c - 48 ELSE IF c <= 70 THEN c - 55 ELSE c - 87
RECURSIVE PercentDecode(_)
PercentDecode(s) == IF s = <<>> THEN <<>>
                    ELSE IF Head(s) = 37 /\ Len(s) >= 3 /\ IsHex(s[2]) /\ IsHex(s[3])
                         THEN <<HexVal(s[2]) * 16 + HexVal(s[3])>> \o PercentDecode(SubSeq(s, 4, Len(s)))
                    ELSE <<Head(s)>> \o PercentDecode(Tail(s))
MustEncode(c) == c >= 128 \/ c < 32 \/ c = 127
RECURSIVE PercentShape(_, _)
\* `out` renders `inp` byte by byte, each byte as itself or as its %XX (upper-case hex); an ASCII letter or digit is
\* never encoded, a control or a byte >= 128 always is (true of every percent-encode set of the URL standard)
PercentShape(out, inp) ==
  IF inp = <<>> THEN out = <<>>
  ELSE LET c == Head(inp) IN
       \/ /\ Len(out) >= 3 /\ out[1] = 37 /\ out[2] = HexUpper[(c \div 16) + 1] /\ out[3] = HexUpper[(c % 16) + 1]
          /\ ~IsAlnum(c) /\ PercentShape(SubSeq(out, 4, Len(out)), Tail(inp))
       \/ /\ Len(out) >= 1 /\ out[1] = c /\ ~MustEncode(c) /\ PercentShape(Tail(out), Tail(inp))

(* ---------- IEEE-754 doubles as four 16-bit limbs: neighbours ---------- *)
IncW(x) == AddW(x, One)
\* a and b are the same double or adjacent doubles (one unit in the last place apart; -0.0 and +0.0 are the same number)
WithinOneUlp(a, b) == \/ a = b
                      \/ (FIsZero(a) /\ FIsZero(b))
                      \/ (FSign(a) = FSign(b) /\ (IncW(FMag(a)) = FMag(b) \/ IncW(FMag(b)) = FMag(a)))
                      \/ (FSign(a) # FSign(b) /\ ((FIsZero(a) /\ FMag(b) = One) \/ (FIsZero(b) /\ FMag(a) = One)))
\* at most two units in the last place apart
WithinTwoUlp(a, b) == \/ WithinOneUlp(a, b)
                      \/ (FSign(a) = FSign(b) /\ (IncW(IncW(FMag(a))) = FMag(b) \/ IncW(IncW(FMag(b))) = FMag(a)))
                      \/ (FSign(a) # FSign(b) /\ FMag(a) = One /\ FMag(b) = One)
FLe(x, y) == FLt(x, y) \/ FEq(x, y)
FAbsBits(b) == FMag(b)
FIsFinite(b) == FExp(b) # 2047
=============================================================================
