----------------------------- MODULE TraceKinds -----------------------------
(***************************************************************************)
(* C19 - the type abstraction is sound for path operations and merging.    *)
(* Each record holds a kind k (built from the TLC-generated description    *)
(* through Kind's public builders and serialised back through its public   *)
(* accessors: rt), a value v that the specification's InKind puts in k,    *)
(* and the results of the REAL Kind operations next to the REAL Value      *)
(* operations.  TLC evaluates, with the independent membership predicate:  *)
(*  S1  read:   Get(v,p) absent => at_path(k,p) admits undefined;           *)
(*              else Get(v,p) \in at_path(k,p); and \in get(k,p) (null for  *)
(*              absent)                                                     *)
(*  S2  insert: x \in kx => insert(v,p,x) \in insert(k,p,kx)                *)
(*  S3  remove: remove(v,p,c) \in remove(k,p,c); the removed value (null   *)
(*              if nothing) \in the returned kind                           *)
(*  S4  union/merge: members of either operand are members of the union;   *)
(*              v | v2 \in merge_overwrite(k, k2) for objects              *)
(*  S5  subtype: is_superset(k, k2) => every member of k2 is a member of k *)
(*  S6  subtype, other direction, where membership is known without a      *)
(*      witness: k contains its own members, and the union contains the     *)
(*      members of both operands (S4), so is_superset(k, k),                *)
(*      is_superset(k \/ k2, k) and is_superset(k \/ k2, k2) must say yes   *)
(***************************************************************************)
EXTENDS Kinds, Json, IOUtils

Rec == ndJsonDeserialize(IOEnv.TRACE)
VARIABLES l, viols, cnt
kvars == <<l, viols, cnt>>
Ev == Rec[l]

OrNull(v) == IF IsNone(v) THEN Null ELSE v
InKindExpr(v, kd) == InKind(v, kd) \/ (IsNull(v) /\ AdmitsUndefined(kd))
HasNeg(p) == \E j \in 1..Len(p) : IsIndex(p[j]) /\ p[j].i < 0

\* the case is meaningful only if the kinds survived the trip through the real builders
Bound(r) == InKind(r.v, r.rt) /\ InKind(r.x, r.rtx)

Laws(r) ==
  (IF IsNone(r.vget) THEN (IF AdmitsUndefined(r.at_path) THEN <<>> ELSE << "S1-AbsentNeedsUndefined" >>)
   ELSE (IF InKind(r.vget, r.at_path) THEN <<>> ELSE << "S1-ReadInAtPath" >>))
  \o (IF InKindExpr(OrNull(r.vget), r.get) THEN <<>> ELSE << "S1-ReadInGet" >>)
  \o (IF InKind(r.vins, r.ins) THEN <<>> ELSE << "S2-InsertSound" >>)
  \o (IF InKind(r.vrem.val, r.rem.kind) THEN <<>> ELSE << "S3-RemoveSound" >>)
  \o (IF InKindExpr(OrNull(r.vrem.removed), r.rem.removed) THEN <<>> ELSE << "S3-RemovedValueKind" >>)
  \o (IF InKind(r.v, r.union) THEN <<>> ELSE << "S4-UnionContainsLeft" >>)
  \o (IF ~IsNone(r.v2) /\ InKind(r.v2, r.rt2) /\ ~InKind(r.v2, r.union) THEN << "S4-UnionContainsRight" >> ELSE <<>>)
  \o (IF ~IsNone(r.v2) /\ InKind(r.v2, r.rt2) /\ ~IsNone(r.vmerge) /\ ~InKind(r.vmerge, r.merge) THEN << "S4-MergeSound" >> ELSE <<>>)
  \o (IF r.sup /\ ~IsNone(r.v2) /\ InKind(r.v2, r.rt2) /\ ~InKind(r.v2, r.rt) THEN << "S5-SupersetAgreesWithMembership" >> ELSE <<>>)
  \o (IF r.sup_refl THEN <<>> ELSE << "S6-SupersetReflexive" >>)
  \o (IF r.sup_union_l /\ r.sup_union_r THEN <<>> ELSE << "S6-UnionIsSupersetOfOperands" >>)

(* ---------- features of a case: name the circumstances a finding occurred in ---------- *)
Holes(kn) == \E j \in 1..Len(kn) : \E i \in 0..(kn[j][1] - 1) : KnownIndex(kn, i) = None
RECURSIVE AnyOptIdx(_)
\* some array in the kind has a known index that may be absent, or a hole before a known index
AnyOptIdx(kd) ==
  \/ (HasArr(kd) /\ (\/ Holes(kd.arr.kn)
                       \/ \E j \in 1..Len(kd.arr.kn) : AdmitsUndefined(kd.arr.kn[j][2]) \/ AnyOptIdx(kd.arr.kn[j][2])
                       \/ ("x" \in DOMAIN kd.arr.un /\ AnyOptIdx(kd.arr.un.x))))
  \/ (HasObj(kd) /\ (\/ \E f \in DOMAIN kd.obj.kn : AnyOptIdx(kd.obj.kn[f])
                       \/ ("x" \in DOMAIN kd.obj.un /\ AnyOptIdx(kd.obj.un.x))))
\* one step of navigation in a kind: [kn |-> known?, kd |-> kind there, stop |-> infinite unknown]
Nav(kd, sg) ==
  IF IsField(sg) THEN
     IF HasObj(kd) /\ sg.f \in DOMAIN kd.obj.kn THEN [kn |-> TRUE, kd |-> kd.obj.kn[sg.f], stop |-> FALSE]
     ELSE IF HasObj(kd) /\ "x" \in DOMAIN kd.obj.un THEN [kn |-> FALSE, kd |-> kd.obj.un.x, stop |-> FALSE]
     ELSE [kn |-> FALSE, kd |-> kd, stop |-> TRUE]
  ELSE
     IF HasArr(kd) /\ sg.i >= 0 /\ KnownIndex(kd.arr.kn, sg.i) # None THEN [kn |-> TRUE, kd |-> KnownIndex(kd.arr.kn, sg.i), stop |-> FALSE]
     ELSE IF HasArr(kd) /\ "x" \in DOMAIN kd.arr.un THEN [kn |-> FALSE, kd |-> kd.arr.un.x, stop |-> FALSE]
     ELSE [kn |-> FALSE, kd |-> kd, stop |-> TRUE]
RECURSIVE DeepThroughUnknown(_, _)
\* the path goes *through* (not just to) a member the kind only describes by its unknown part
DeepThroughUnknown(kd, p) ==
  IF Len(p) <= 1 THEN FALSE
  ELSE LET n == Nav(kd, Head(p)) IN
       IF ~n.kn THEN TRUE ELSE IF n.stop THEN FALSE ELSE DeepThroughUnknown(n.kd, Tail(p))
Pads(v, p) == \E j \in 1..Len(p) :
                IsIndex(p[j]) /\ LET u == Get(v, SubSeq(p, 1, j - 1)) IN
                                 ~IsNone(u) /\ IsArr(u) /\ (p[j].i >= Len(u.e) \/ -(p[j].i) > Len(u.e))
RhsOptional(k2) == HasObj(k2) /\ \E f \in DOMAIN k2.obj.kn : AdmitsUndefined(k2.obj.kn[f])

Features(r, rule) ==
  LET merge == rule \in {"S4-MergeSound", "S4-UnionContainsLeft", "S4-UnionContainsRight", "S5-SupersetAgreesWithMembership", "S6-SupersetReflexive", "S6-UnionIsSupersetOfOperands"}
      fs == IF merge THEN (IF RhsOptional(r.rt2) THEN <<"rhs-optional-field">> ELSE <<>>)
            ELSE (IF HasNeg(r.p) THEN <<"negative-index">> ELSE <<>>)
                 \o (IF AnyOptIdx(r.rt) THEN <<"optional-or-sparse-known-index">> ELSE <<>>)
                 \o (IF DeepThroughUnknown(r.rt, r.p) THEN <<"through-unknown-member">> ELSE <<>>)
                 \o (IF rule = "S2-InsertSound" /\ Pads(r.v, r.p) THEN <<"padding">> ELSE <<>>)
                 \o (IF rule \in {"S3-RemoveSound", "S3-RemovedValueKind"} /\ r.compact THEN <<"compact">> ELSE <<>>)
                 \o (IF r.p # <<>> /\ (KPrims(r.rt) \ {"undefined"}) # {} /\ (HasArr(r.rt) \/ HasObj(r.rt))
                       THEN <<"collection-or-primitive">> ELSE <<>>)
      RECURSIVE Join(_)
      Join(q) == IF q = <<>> THEN "" ELSE IF Len(q) = 1 THEN q[1] ELSE q[1] \o "+" \o Join(Tail(q))
  IN IF fs = <<>> THEN "plain" ELSE Join(fs)

Bump(c, name) == [c EXCEPT ![name] = @ + 1]

T_Op ==
  /\ l <= Len(Rec) /\ Ev.e = "kindop"
  /\ IF ~Bound(Ev)
     THEN /\ viols' = viols /\ cnt' = Bump(cnt, "unbound")
     ELSE LET ls == Laws(Ev) IN
          /\ viols' = (IF ls = <<>> THEN viols
                       ELSE Append(viols, [prop |-> "C19", rule |-> ls[1],
                                           at |-> Features(Ev, ls[1]),
                                           prog |-> 0, line |-> l,
                                           what |-> [k |-> Ev.k, v |-> Ev.v, p |-> Ev.p, all |-> ls]]))
          /\ cnt' = LET c1 == Bump(cnt, "ops")
                        c2 == IF ~IsNone(Ev.vget) THEN Bump(c1, "path_existed") ELSE c1
                        c3 == IF Ev.sup THEN Bump(c2, "superset_true") ELSE c2
                        c4 == IF ~IsNone(Ev.vmerge) THEN Bump(c3, "merges") ELSE c3
                    IN c4
  /\ l' = l + 1

T_Panic ==
  /\ l <= Len(Rec) /\ Ev.e = "panic"
  /\ viols' = Append(viols, [prop |-> "C04", rule |-> "NoPanic", at |-> Ev.where, prog |-> 0, line |-> l,
                             what |-> [got |-> Ev.message]])
  /\ cnt' = Bump(cnt, "ops")
  /\ l' = l + 1

Init == l = 1 /\ viols = <<>> /\ cnt = [c \in {"ops", "unbound", "path_existed", "superset_true", "merges"} |-> 0]
Next == T_Op \/ T_Panic
TraceSpec == Init /\ [][Next]_kvars
Report == (l = Len(Rec) + 1) =>
   PrintT(<<"RESULT", ToJson([consumed |-> l - 1, viols |-> viols, divs |-> <<>>, cnt |-> cnt])>>)
TraceAccepted == \/ TLCGet("stats").diameter - 1 = Len(Rec)
                 \/ PrintT(<<"STUCK", TLCGet("stats").diameter, Len(Rec)>>)
=============================================================================
