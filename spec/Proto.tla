------------------------------- MODULE Proto -------------------------------
(***************************************************************************)
(* The message types of the descriptor sets shipped with the repository    *)
(* (tests/data/protobuf), as a schema, and the round-trip relation of C26: *)
(* parse_proto(encode_proto(v)) equals v field by field, except that a     *)
(* field holding its type's default value may be absent, and an absent     *)
(* field may come back as the default.  Values are in the law encoding of  *)
(* FnLaws.tla (objects with `m`, arrays with `e`, strings with `u`/`c`).   *)
(***************************************************************************)
EXTENDS Codecs

\* field: [t |-> scalar type | "msg" | "enum", of |-> message / enum name, card |-> "one" | "opt" | "rep" | "map", key |-> map key type]
F(t, of, card) == [t |-> t, of |-> of, card |-> card]
Schema == [ m \in {"test.v1.Integers", "test.v1.Floats", "test.v1.Bytes", "test.v1.Booleans", "test.v1.Map", "test.v1.Map.Person", "test.v1.Enum",
                   "test.v1.Timestamp", "google.protobuf.Timestamp", "test.v1.RepeatedPrimitive", "test.v1.RepeatedMessage", "test.v1.RepeatedMessage.EmbeddedMessage",
                   "test_protobuf3.v1.Person", "test_protobuf3.v1.Person.PhoneNumber", "test_protobuf3.v1.AddressBook",
                   "test_protobuf.v1.Person", "test_protobuf.v1.Person.PhoneNumber", "test_protobuf.v1.AddressBook",
                   "test_protobuf_maps.v1.Maps"} |->
  CASE m = "test.v1.Integers" -> [i32 |-> F("int32", "", "one"), i64 |-> F("int64", "", "one"), u32 |-> F("uint32", "", "one"), u64 |-> F("uint64", "", "one")]
    [] m = "test.v1.Floats" -> [d |-> F("double", "", "one"), f |-> F("float", "", "one")]
    [] m = "test.v1.Bytes" -> [text |-> F("string", "", "one"), binary |-> F("bytes", "", "one")]
    [] m = "test.v1.Booleans" -> [b |-> F("bool", "", "one")]
    [] m = "test.v1.Map" -> [names |-> F("int32", "", "map"), people |-> F("msg", "test.v1.Map.Person", "map")]
    [] m = "test.v1.Map.Person" -> [nickname |-> F("string", "", "one"), age |-> F("uint32", "", "one")]
    [] m = "test.v1.Enum" -> [breakfast |-> F("enum", "Fruit", "one"), lunch |-> F("enum", "Fruit", "one"), dinner |-> F("enum", "Fruit", "one")]
    [] m = "test.v1.Timestamp" -> [morning |-> F("msg", "google.protobuf.Timestamp", "one")]
    [] m = "google.protobuf.Timestamp" -> [seconds |-> F("int64", "", "one"), nanos |-> F("int32", "", "one")]
    [] m = "test.v1.RepeatedPrimitive" -> [numbers |-> F("int64", "", "rep")]
    [] m = "test.v1.RepeatedMessage" -> [messages |-> F("msg", "test.v1.RepeatedMessage.EmbeddedMessage", "rep")]
    [] m = "test.v1.RepeatedMessage.EmbeddedMessage" -> [text |-> F("string", "", "opt"), index |-> F("uint32", "", "opt")]
    [] m = "test_protobuf3.v1.Person" -> [name |-> F("string", "", "opt"), id |-> F("int32", "", "opt"), email |-> F("string", "", "opt"), job_description |-> F("string", "", "opt"),
                                         data |-> F("enum", "PhoneType", "map"), phones |-> F("msg", "test_protobuf3.v1.Person.PhoneNumber", "rep")]
    [] m = "test_protobuf3.v1.Person.PhoneNumber" -> [number |-> F("string", "", "opt"), type |-> F("enum", "PhoneType", "opt")]
    [] m = "test_protobuf3.v1.AddressBook" -> [people |-> F("msg", "test_protobuf3.v1.Person", "rep")]
    [] m = "test_protobuf.v1.Person" -> [name |-> F("string", "", "opt"), id |-> F("int32", "", "opt"), email |-> F("string", "", "opt"),
                                        phones |-> F("msg", "test_protobuf.v1.Person.PhoneNumber", "rep")]
    [] m = "test_protobuf.v1.Person.PhoneNumber" -> [number |-> F("string", "", "opt"), type |-> F("enum", "PhoneType", "opt")]
    [] m = "test_protobuf.v1.AddressBook" -> [people |-> F("msg", "test_protobuf.v1.Person", "rep")]
    [] m = "test_protobuf_maps.v1.Maps" -> [by_string |-> F("string", "", "map")] ]
Enums == [e \in {"Fruit", "PhoneType"} |-> IF e = "Fruit" THEN <<"FRUIT_APPLE_UNSPECIFIED", "FRUIT_OLIVE", "FRUIT_TOMATO">>
                                            ELSE <<"PHONE_TYPE_UNSPECIFIED", "PHONE_TYPE_MOBILE", "PHONE_TYPE_HOME", "PHONE_TYPE_WORK">>]
DescFile == [p \in {"test.v1", "test_protobuf3.v1", "test_protobuf.v1", "test_protobuf_maps.v1"} |->
               CASE p = "test.v1" -> "tests/data/protobuf/test/v1/test.desc" [] p = "test_protobuf3.v1" -> "tests/data/protobuf/test_protobuf3/v1/test_protobuf3.desc"
                 [] p = "test_protobuf.v1" -> "tests/data/protobuf/test_protobuf/v1/test_protobuf.desc" [] OTHER -> "tests/data/protobuf/test_protobuf_maps/v1/test_protobuf_maps.desc"]

IsZeroInt(v) == v.t = "int" /\ v.w = Zero
IsDefault(v, f) ==
  CASE f.card = "rep" -> v.t = "arr" /\ v.e = <<>>
    [] f.card = "map" -> v.t = "obj" /\ DOMAIN v.m = {}
    [] f.t \in {"int32", "int64", "uint32", "uint64"} -> IsZeroInt(v)
    [] f.t \in {"double", "float"} -> v.t = "float" /\ FIsZero(v.b)          \* (either sign of zero: the encoder compares with 0.0)
    [] f.t \in {"string", "bytes"} -> v.t = "bytes" /\ BytesOf(v) = <<>>
    [] f.t = "bool" -> v.t = "bool" /\ v.v = FALSE
    [] f.t = "enum" -> v.t = "bytes" /\ "s" \in DOMAIN v /\ v.s = Enums[f.of][1]
    [] OTHER -> FALSE
RECURSIVE SameMsg(_, _, _), SameOne(_, _, _)
\* one (non-repeated, non-map) value of field type f
SameOne(p, o, f) ==
  CASE f.t = "msg" -> p.t = "obj" /\ o.t = "obj" /\ SameMsg(p, o, f.of)
    [] f.t \in {"int32", "int64", "uint32", "uint64"} -> p.t = "int" /\ p.w = o.w
    [] f.t \in {"double", "float"} -> p.t = "float" /\ (p.b = o.b \/ (FIsZero(p.b) /\ FIsZero(o.b)))
    [] f.t \in {"string", "bytes"} -> p.t = "bytes" /\ BytesOf(p) = BytesOf(o)
    [] f.t = "bool" -> p.t = "bool" /\ p.v = o.v
    [] f.t = "enum" -> p.t = "bytes" /\ "s" \in DOMAIN p /\ p.s = o.s
SameField(p, o, f) ==
  CASE f.card = "rep" -> p.t = "arr" /\ Len(p.e) = Len(o.e) /\ \A j \in 1..Len(o.e) : SameOne(p.e[j], o.e[j], f)
    [] f.card = "map" -> p.t = "obj" /\ DOMAIN p.m = DOMAIN o.m /\ \A k \in DOMAIN o.m : SameOne(p.m[k], o.m[k], f)
    [] OTHER -> SameOne(p, o, f)
\* parsed message p against original o of message type ty
SameMsg(p, o, ty) ==
  LET S == Schema[ty] IN
  /\ DOMAIN p.m \subseteq DOMAIN S
  /\ \A fn \in DOMAIN S :
       LET f == S[fn] IN
       IF fn \in DOMAIN o.m
       THEN IF IsDefault(o.m[fn], f) /\ f.card # "opt"
            THEN (fn \notin DOMAIN p.m) \/ SameField(p.m[fn], o.m[fn], f)          \* a default value may be dropped
            ELSE fn \in DOMAIN p.m /\ SameField(p.m[fn], o.m[fn], f)
       ELSE (fn \notin DOMAIN p.m) \/ (f.card # "opt" /\ IsDefault(p.m[fn], f))   \* an absent field may come back as the default
=============================================================================
