----------------------------- MODULE GenValues -----------------------------
(***************************************************************************)
(* The bounded universes of Engine B, defined in TLA+ and printed once:    *)
(* values (nested objects / arrays / scalars), paths (fields, positive,    *)
(* negative and out-of-range indices, a quoted field) and inserted values. *)
(* The driver takes the product (thorough) or a seeded sample that always  *)
(* contains every tuple with a negative or out-of-range index on the small *)
(* values (quick).                                                          *)
(***************************************************************************)
EXTENDS Values, Json, SequencesExt

Scalars == {Null, IntV(1), Str("s")}
Keys == {"a", "b"}
Objs(S) == {Obj(m) : m \in UNION {[K -> S] : K \in SUBSET Keys}}
Arrs(S, n) == {Arr(e) : e \in UNION {[1..j -> S] : j \in 0..n}}
D1 == Scalars \cup Objs(Scalars) \cup Arrs(Scalars, 3)
\* representatives of depth 1 used as children at depth 2
R1 == {Null, IntV(1), Obj([a |-> IntV(1)]), Obj([a |-> IntV(1), b |-> Str("s")]), Obj(<<>>),
       Arr(<<>>), Arr(<<IntV(1)>>), Arr(<<IntV(1), Str("s")>>), Arr(<<Null, IntV(1), Str("s")>>)}
D2 == D1 \cup Objs(R1) \cup Arrs(R1, 2)

Segs == {F("a"), F("b"), F("b c"), I(0), I(1), I(2), I(5), I(-1), I(-2), I(-3), I(-6)}
Paths(n) == UNION {[1..j -> Segs] : j \in 0..n}
Inserted == {IntV(7), Null, Obj([c |-> IntV(7)]), Arr(<<IntV(7)>>)}

ASSUME PrintT(<<"VALUES1", ToJson(SetToSeq(D1))>>)
ASSUME PrintT(<<"VALUES2", ToJson(SetToSeq(D2 \ D1))>>)
ASSUME PrintT(<<"SEGS", ToJson(SetToSeq(Segs))>>)
ASSUME PrintT(<<"INSERTED", ToJson(SetToSeq(Inserted))>>)
ASSUME PrintT(<<"SIZES", ToJson([d1 |-> Cardinality(D1), d2 |-> Cardinality(D2), segs |-> Cardinality(Segs)])>>)

VARIABLE dummy
Init == dummy = 0
Next == UNCHANGED dummy
Spec == Init /\ [][Next]_dummy
=============================================================================
