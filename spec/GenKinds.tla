------------------------------ MODULE GenKinds ------------------------------
(***************************************************************************)
(* Bounded universe of kinds for C19 and, decided by the specification's   *)
(* own InKind, which values of the bounded value universe each kind        *)
(* contains.  Printed once: KINDS, VALUES, MEMBERS (per kind, the indices  *)
(* of its member values).                                                   *)
(***************************************************************************)
EXTENDS Kinds, Json, SequencesExt

KP(ps) == [p |-> ps]
AnyPrims == <<"bytes", "integer", "float", "boolean", "timestamp", "regex", "null", "undefined">>
JsonPrims == <<"bytes", "integer", "float", "boolean", "null", "undefined">>
UNone   == [x |-> KP(<<"undefined">>)]
UInt    == [x |-> KP(<<"integer", "undefined">>)]
UStrNul == [x |-> KP(<<"bytes", "null", "undefined">>)]
UAny    == [inf |-> [p |-> AnyPrims, arr |-> TRUE, obj |-> TRUE]]
UJson   == [inf |-> [p |-> JsonPrims, arr |-> TRUE, obj |-> TRUE]]
Unknowns == {UNone, UInt, UStrNul, UAny, UJson}

L0 == {KP(<<"integer">>), KP(<<"bytes">>), KP(<<"null">>), KP(<<"integer", "undefined">>),
       KP(<<"bytes", "null">>), KP(<<"bytes", "integer", "null">>)}

ObjK(m, u) == [p |-> <<>>, obj |-> [kn |-> m, un |-> u]]
ArrK(kn, u) == [p |-> <<>>, arr |-> [kn |-> kn, un |-> u]]
Keys == {"a", "b"}
ObjKinds(C) == {ObjK(m, u) : m \in UNION {[K -> C] : K \in SUBSET Keys}, u \in Unknowns}
\* known index sets: none, {0}, {0,1}, {1} (a hole at 0), {0,2}
ArrKinds(C) == {ArrK(<<>>, u) : u \in Unknowns}
               \cup {ArrK(<< <<0, c>> >>, u) : c \in C, u \in Unknowns}
               \cup {ArrK(<< <<0, c>>, <<1, d>> >>, u) : c \in C, d \in C, u \in Unknowns}
               \cup {ArrK(<< <<1, c>> >>, u) : c \in C, u \in Unknowns}
               \cup {ArrK(<< <<0, c>>, <<2, d>> >>, u) : c \in {KP(<<"integer">>), KP(<<"bytes", "null">>)}, d \in C, u \in Unknowns}
\* a collection or a primitive
Mixed == {[p |-> <<"null">>, obj |-> [kn |-> [a |-> KP(<<"integer">>)], un |-> UNone]],
          [p |-> <<"integer">>, arr |-> [kn |-> << <<0, KP(<<"bytes">>)>> >>, un |-> UNone]],
          [p |-> <<"bytes">>, arr |-> [kn |-> <<>>, un |-> UInt], obj |-> [kn |-> <<>>, un |-> UAny]],
          [p |-> AnyPrims, arr |-> [kn |-> <<>>, un |-> UAny], obj |-> [kn |-> <<>>, un |-> UAny]]}
K1 == L0 \cup ObjKinds(L0) \cup ArrKinds(L0) \cup Mixed
\* nesting: representative depth-1 kinds as children
R1 == {KP(<<"integer">>), ObjK([a |-> KP(<<"integer">>)], UNone), ObjK(<<>>, UAny), ObjK([a |-> KP(<<"integer", "undefined">>)], UInt),
       ArrK(<<>>, UInt), ArrK(<< <<0, KP(<<"integer">>)>> >>, UNone), ArrK(<< <<0, KP(<<"integer">>)>>, <<1, KP(<<"bytes">>)>> >>, UStrNul)}
K2 == {ObjK(m, u) : m \in UNION {[K -> R1] : K \in {{"a"}, {"a", "b"}}}, u \in {UNone, UAny}}
      \cup {ArrK(<< <<0, c>> >>, u) : c \in R1, u \in {UNone, UInt}}
      \cup {ArrK(<<>>, [x |-> c]) : c \in {ObjK([a |-> KP(<<"integer">>)], UNone), ArrK(<<>>, UInt)}}
KindsU == K1 \cup K2

\* the value universe (same construction as GenValues)
Scalars == {Null, IntV(1), Str("s")}
Objs(S) == {Obj(m) : m \in UNION {[K -> S] : K \in SUBSET Keys}}
Arrs(S, n) == {Arr(e) : e \in UNION {[1..j -> S] : j \in 0..n}}
D1 == Scalars \cup Objs(Scalars) \cup Arrs(Scalars, 3)
RV == {Null, IntV(1), Obj([a |-> IntV(1)]), Obj([a |-> IntV(1), b |-> Str("s")]), Obj(<<>>),
       Arr(<<>>), Arr(<<IntV(1)>>), Arr(<<IntV(1), Str("s")>>)}
D2 == D1 \cup Objs(RV) \cup Arrs(RV, 2)

KSeq == SetToSeq(KindsU)
VSeq == SetToSeq(D2)
Members == [i \in 1..Len(KSeq) |-> SetToSeq({j \in 1..Len(VSeq) : InKind(VSeq[j], KSeq[i])})]

ASSUME PrintT(<<"KINDS", ToJson(KSeq)>>)
ASSUME PrintT(<<"VALUES", ToJson(VSeq)>>)
ASSUME PrintT(<<"MEMBERS", ToJson(Members)>>)

VARIABLE dummy
Init == dummy = 0
Next == UNCHANGED dummy
Spec == Init /\ [][Next]_dummy
=============================================================================
