---------------------------- MODULE TraceValues ----------------------------
(***************************************************************************)
(* C18 - value path operations obey the get / insert / remove laws.        *)
(* Every record holds the results of the REAL Value::get / insert /        *)
(* remove / get_mut and of TargetValue's target_* wrappers on one          *)
(* (value, path, inserted value, prune) tuple.  The laws are evaluated by  *)
(* TLC on those real results; the reference operations of Values.tla are   *)
(* used for the frame law and to report divergences of the model.          *)
(*  L1  after insert(p, x): get(p) = x                                     *)
(*  L2  the insertion leaves every independent location unchanged          *)
(*  L3  remove(p) returns exactly what get(p) returned                     *)
(*  L4  a path through a non-container finds nothing and removes nothing   *)
(*  L5  insert returns the previous value; get_mut and the Target wrappers *)
(*      agree with the Value operations                                    *)
(***************************************************************************)
EXTENDS Values, Json, IOUtils

Rec == ndJsonDeserialize(IOEnv.TRACE)
QSegs == {F("a"), F("b"), F("b c"), I(0), I(1), I(2), I(-1), I(-2), I(-3)}
QPaths == UNION {[1..j -> QSegs] : j \in 1..2}

VARIABLES l, viols, divs, cnt
vvars == <<l, viols, divs, cnt>>
Ev == Rec[l]

\* Is location q independent of an insertion at p into v (neither contains the other, and the
\* insertion neither replaces the container q goes through nor shifts q's position)?
RECURSIVE Independent(_, _, _)
Independent(v, p, q) ==
  IF p = <<>> \/ q = <<>> THEN FALSE
  ELSE LET s == Head(p)  t == Head(q) IN
    IF IsField(s) /\ IsField(t) THEN
       IF s.f # t.f THEN IsObj(v)                      \* sibling fields of an existing object
       ELSE IF IsObj(v) /\ s.f \in DOMAIN v.m THEN Independent(v.m[s.f], Tail(p), Tail(q))
       ELSE FALSE                                       \* the common parent is created by the insert
    ELSE IF IsIndex(s) /\ IsIndex(t) THEN
       IF ~IsArr(v) THEN FALSE
       ELSE LET n == Len(v.e)  i == ResolveIndex(n, s.i)  j == ResolveIndex(n, t.i) IN
            IF i < 0 THEN                               \* front padding: positions counted from the END stay put
               (t.i < 0 /\ t.i # s.i /\ -(t.i) <= n)
            ELSE IF j < 0 THEN FALSE                    \* q does not name a stable position
            ELSE IF s.i < 0 /\ t.i >= 0 /\ i # j THEN TRUE
            ELSE IF (t.i < 0) /\ i >= n THEN FALSE      \* the array grows: negative q moves
            ELSE IF i # j THEN TRUE
            ELSE IF i < n THEN Independent(v.e[i + 1], Tail(p), Tail(q))
            ELSE FALSE
    ELSE FALSE                                          \* field vs index: the container is replaced

\* first proper prefix of p that resolves to a scalar (a non-container that exists)
ThroughScalar(v, p) == \E j \in 0..(Len(p) - 1) :
                          LET u == Get(v, SubSeq(p, 1, j)) IN
                          ~IsNone(u) /\ ~IsContainer(u)
                          /\ \A i \in 0..(j - 1) : ~IsNone(Get(v, SubSeq(p, 1, i)))

Laws(r) ==
  LET v == r.v  p == r.p  x == r.x IN
  (IF r.get_after # x THEN << [rule |-> "L1-GetAfterInsert"] >> ELSE <<>>)
  \o (IF \E q \in QPaths : Independent(v, p, q) /\ GetOrNull(r.ins.val, q) # GetOrNull(v, q)
        THEN << [rule |-> "L2-InsertFrame"] >> ELSE <<>>)
  \o (IF r.rem.removed # r.get THEN << [rule |-> "L3-RemoveReturnsGet"] >> ELSE <<>>)
  \o (IF ThroughScalar(v, p) /\ ~(IsNone(r.get) /\ IsNone(r.rem.removed) /\ r.rem.val = v)
        THEN << [rule |-> "L4-ThroughNonContainer"] >> ELSE <<>>)
  \o (IF r.ins.prev # r.get THEN << [rule |-> "L5-InsertReturnsPrevious"] >> ELSE <<>>)
  \o (IF r.get_mut # r.get THEN << [rule |-> "L5-GetMutAgrees"] >> ELSE <<>>)
  \o (IF r.t.get # r.get \/ r.t.ins_val # r.ins.val \/ r.t.rem # r.rem.removed \/ r.t.rem_val # r.rem.val
        THEN << [rule |-> "L5-TargetWrappersAgree"] >> ELSE <<>>)

\* where the transcribed reference operations differ from the code (evidence only)
Diverges(r) ==
  (IF r.get # Get(r.v, r.p) THEN <<"get">> ELSE <<>>)
  \o (IF r.ins.val # Insert(r.v, r.p, r.x) THEN <<"insert">> ELSE <<>>)
  \o (IF r.rem.val # Remove(r.v, r.p, r.prune).val \/ r.rem.removed # Remove(r.v, r.p, r.prune).rem THEN <<"remove">> ELSE <<>>)

Bump(c, name) == [c EXCEPT ![name] = @ + 1]
HasNeg(p) == \E j \in 1..Len(p) : IsIndex(p[j]) /\ p[j].i < 0

T_Op ==
  /\ l <= Len(Rec) /\ Ev.e = "valop"
  /\ LET ls == Laws(Ev)  ds == Diverges(Ev) IN
     /\ viols' = (IF ls = <<>> THEN viols
                  ELSE Append(viols, [prop |-> "C18", rule |-> ls[1].rule,
                                      at |-> (IF HasNeg(Ev.p) THEN "negative-index" ELSE "plain-path"),
                                      prog |-> 0, line |-> l, what |-> [v |-> Ev.v, p |-> Ev.p, x |-> Ev.x]]))
     /\ divs' = (IF ds = <<>> \/ Len(divs) >= 20 THEN divs
                 ELSE Append(divs, [prop |-> "D", rule |-> ds[1], at |-> "Values.tla", line |-> l,
                                    what |-> [v |-> Ev.v, p |-> Ev.p, x |-> Ev.x, prune |-> Ev.prune]]))
     /\ cnt' = LET c1 == Bump(cnt, "ops")
                   c2 == IF ~IsNone(Ev.get) THEN Bump(c1, "path_existed") ELSE c1
                   c3 == IF HasNeg(Ev.p) THEN Bump(c2, "negative_index") ELSE c2
                   c4 == IF ThroughScalar(Ev.v, Ev.p) THEN Bump(c3, "through_scalar") ELSE c3
                   c5 == IF ds # <<>> THEN Bump(c4, "model_divergences") ELSE c4
               IN c5
  /\ l' = l + 1

T_Panic ==
  /\ l <= Len(Rec) /\ Ev.e = "panic"
  /\ viols' = Append(viols, [prop |-> "C04", rule |-> "NoPanic", at |-> Ev.where, prog |-> 0, line |-> l,
                             what |-> [got |-> Ev.message]])
  /\ cnt' = Bump(cnt, "ops") /\ divs' = divs
  /\ l' = l + 1

Init == l = 1 /\ viols = <<>> /\ divs = <<>>
        /\ cnt = [c \in {"ops", "path_existed", "negative_index", "through_scalar", "model_divergences"} |-> 0]
Next == T_Op \/ T_Panic
TraceSpec == Init /\ [][Next]_vvars
Report == (l = Len(Rec) + 1) =>
   PrintT(<<"RESULT", ToJson([consumed |-> l - 1, viols |-> viols, divs |-> divs, cnt |-> cnt])>>)
TraceAccepted == \/ TLCGet("stats").diameter - 1 = Len(Rec)
                 \/ PrintT(<<"STUCK", TLCGet("stats").diameter, Len(Rec)>>)
=============================================================================
