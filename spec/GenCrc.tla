------------------------------- MODULE GenCrc -------------------------------
(* Prints the names of the catalogue (the published check values are verified bit by bit by CrcTrace.tla in every run). *)
EXTENDS Crc, Json, TLC, SequencesExt
ASSUME PrintT(<<"CRC_NAMES", ToJson(SetToSeq({alg.name : alg \in Catalogue}))>>)
VARIABLE dummy
Init == dummy = 0
Next == UNCHANGED dummy
Spec == Init /\ [][Next]_dummy
=============================================================================
