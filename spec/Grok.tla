--------------------------------- MODULE Grok ---------------------------------
(***************************************************************************)
(* C32 - grok rules match and capture faithfully.  The specification        *)
(* generates the cases AND computes what must happen:                       *)
(*  (i)   alias definitions as a digraph on up to three aliases; the        *)
(*        resolver's alias_stack discipline (push, check, pop) is modelled  *)
(*        as a depth-first expansion; compiling the rule %{a} must be       *)
(*        rejected iff a cycle is reachable from a; otherwise the expansion *)
(*        (every leaf alias is the literal "x") must match its own text     *)
(*  (ii)  literal-only rules: short texts over letters, digits, space and   *)
(*        ESCAPED regex metacharacters - a rule matches exactly its own     *)
(*        unescaped text among all texts of the alphabet                    *)
(*  (iii) rules "%{P1:f} %{P2:g}" over capture patterns word, integer,      *)
(*        notSpace, data: a reference matcher on character sequences        *)
(*        decides match / no match and the captured values                  *)
(***************************************************************************)
EXTENDS Naturals, Integers, Sequences, FiniteSets, TLC, Json, SequencesExt

RECURSIVE Join(_)
Join(cs) == IF cs = <<>> THEN "" ELSE Head(cs) \o Join(Tail(cs))

(* ---------- (i) alias graphs ---------- *)
Aliases == <<"a", "b", "c">>
\* a graph: for each alias the sequence of aliases its definition refers to (<<>> = the literal "x")
Bodies == {<<>>, <<"a">>, <<"b">>, <<"c">>, <<"b", "c">>, <<"c", "b">>, <<"b", "b">>, <<"a", "c">>}
Graphs == [{"a", "b", "c"} -> Bodies]
\* expansion with the alias stack: "CYCLE" if an alias is met while it is on the stack
RECURSIVE Expand(_, _, _)
Expand(g, al, stack) ==
  IF al \in stack THEN <<"CYCLE">>
  ELSE IF g[al] = <<>> THEN <<"x">>
  ELSE LET parts == [j \in 1..Len(g[al]) |-> Expand(g, g[al][j], stack \cup {al})] IN
       IF \E j \in 1..Len(parts) : parts[j] = <<"CYCLE">> THEN <<"CYCLE">>
       ELSE LET RECURSIVE Cat(_)
                Cat(j) == IF j > Len(parts) THEN <<>> ELSE parts[j] \o Cat(j + 1)
            IN Cat(1)
Def(g, al) == IF g[al] = <<>> THEN "x" ELSE Join([j \in 1..Len(g[al]) |-> "%{" \o g[al][j] \o "}"])
CycCase(g) == LET e == Expand(g, "a", {}) IN
  [kind |-> "cyc", shape |-> "alias-graph", rule |-> "%{a}", aliases |-> [al \in {"a", "b", "c"} |-> Def(g, al)],
   cyclic |-> (e = <<"CYCLE">>), input |-> (IF e = <<"CYCLE">> THEN "x" ELSE Join(e))]

(* ---------- (ii) literal rules ---------- *)
\* [c |-> the character, r |-> how it is written in a rule]
LitChars == << [c |-> "a", r |-> "a"], [c |-> "1", r |-> "1"], [c |-> " ", r |-> " "], [c |-> ".", r |-> "\\."], [c |-> "[", r |-> "\\["],
               [c |-> "(", r |-> "\\("], [c |-> "*", r |-> "\\*"], [c |-> "+", r |-> "\\+"], [c |-> "?", r |-> "\\?"], [c |-> "|", r |-> "\\|"],
               [c |-> "\\", r |-> "\\\\"] >>
LitSeqs(n) == UNION {[1..k -> 1..Len(LitChars)] : k \in 1..n}
TextOf(q) == Join([j \in 1..Len(q) |-> LitChars[q[j]].c])
RuleOf(q) == Join([j \in 1..Len(q) |-> LitChars[q[j]].r])

(* ---------- (iii) captures ---------- *)
Lower == {"a", "b"}  Upper == {"Z"}  Dig == {"1", "2", "0"}
IsWordCh(c) == c \in Lower \cup Upper \cup Dig \cup {"_"}
IsDigit(c) == c \in Dig
IsNotSpace(c) == c # " "
AllCh(s, P(_)) == \A j \in 1..Len(s) : P(s[j])
IsWord(s) == s # <<>> /\ AllCh(s, IsWordCh)
IsInteger(s) == LET body == IF s # <<>> /\ Head(s) \in {"-", "+"} THEN Tail(s) ELSE s IN body # <<>> /\ AllCh(body, IsDigit)
IsNotSpaceS(s) == s # <<>> /\ AllCh(s, IsNotSpace)
Accepts(p, s) == CASE p = "word" -> IsWord(s) [] p = "integer" -> IsInteger(s) [] p = "notSpace" -> IsNotSpaceS(s) [] p = "data" -> TRUE
\* "%{P1:f} %{P2:g}": P1 cannot contain a space, so the split is at the first space
FirstSpace(s) == IF \E j \in 1..Len(s) : s[j] = " " THEN CHOOSE j \in 1..Len(s) : s[j] = " " /\ \A i \in 1..(j - 1) : s[i] # " " ELSE 0
DigitVal(c) == CASE c = "0" -> 0 [] c = "1" -> 1 [] c = "2" -> 2
RECURSIVE NatOf(_, _)
NatOf(s, acc) == IF s = <<>> THEN acc ELSE NatOf(Tail(s), acc * 10 + DigitVal(Head(s)))
IntOf(s) == IF Head(s) = "-" THEN -NatOf(Tail(s), 0) ELSE IF Head(s) = "+" THEN NatOf(Tail(s), 0) ELSE NatOf(s, 0)
CapVal(p, s) == IF p = "integer" THEN [t |-> "int", n |-> IntOf(s)] ELSE [t |-> "bytes", s |-> Join(s)]
RefCap(p1, p2, s) ==
  LET j == FirstSpace(s) IN
  IF j = 0 THEN [m |-> FALSE]
  ELSE LET u == SubSeq(s, 1, j - 1)  v == SubSeq(s, j + 1, Len(s)) IN
       IF Accepts(p1, u) /\ Accepts(p2, v) THEN [m |-> TRUE, f |-> CapVal(p1, u), g |-> CapVal(p2, v)] ELSE [m |-> FALSE]
CapAlphabet == <<"a", "Z", "1", "2", "-", "_", " ", ".">>
CapInputs(n) == UNION {[1..k -> 1..Len(CapAlphabet)] : k \in 1..n}
CapStr(q) == [j \in 1..Len(q) |-> CapAlphabet[q[j]]]
CapCase(p1, p2, q) == LET s == CapStr(q)  r == RefCap(p1, p2, s) IN
  [kind |-> "cap", shape |-> p1 \o "+" \o p2, rule |-> "%{" \o p1 \o ":f} %{" \o p2 \o ":g}", aliases |-> <<>>, input |-> Join(s),
   expect_match |-> r.m, caps |-> (IF r.m THEN [f |-> r.f, g |-> r.g] ELSE <<>>)]

CONSTANT Tier
LitN == IF Tier = "thorough" THEN 3 ELSE 2
CapN == IF Tier = "thorough" THEN 5 ELSE 4
ASSUME PrintT(<<"CYC", ToJson(SetToSeq({CycCase(g) : g \in Graphs}))>>)
ASSUME PrintT(<<"LITS", ToJson(SetToSeq({[text |-> TextOf(q), rule |-> RuleOf(q)] : q \in LitSeqs(LitN)}))>>)
ASSUME PrintT(<<"CAPS", ToJson(SetToSeq({CapCase(p1, p2, q) : p1 \in {"word", "integer", "notSpace"}, p2 \in {"word", "integer", "notSpace", "data"},
                                                               q \in CapInputs(CapN)}))>>)
VARIABLE dummy
Init == dummy = 0
Next == UNCHANGED dummy
Spec == Init /\ [][Next]_dummy
=============================================================================
