----------------------------- MODULE TraceCalls -----------------------------
(***************************************************************************)
(* Function-call contracts on calls recorded from the real stdlib:         *)
(*  C03  K1  a returned value belongs to the type the compiler declared    *)
(*           for THIS call (hook H2 record of the call expression) and to  *)
(*           the function's documented return kinds                        *)
(*       K2  a call the compiler typed infallible returns a value          *)
(*       K3  a runtime-typed argument of a wrong type yields an error or a *)
(*           well-typed value - never a panic, a hang or an ill-typed Ok   *)
(*  C04      no call panics (worker processes; a panic is data)            *)
(*  C05      every call answers within the deadline (protocol: each        *)
(*           CallStart is followed by a CallEnd; `timeout` is no CallEnd)  *)
(***************************************************************************)
EXTENDS Kinds, Json, IOUtils

Rec == ndJsonDeserialize(IOEnv.TRACE)
VARIABLES l, viols, cnt
cvars == <<l, viols, cnt>>
Ev == Rec[l]
Bump(c, name) == [c EXCEPT ![name] = @ + 1]
InKindExpr(v, kd) == InKind(v, kd) \/ (IsNull(v) /\ AdmitsUndefined(kd))
RetSet(r) == {r.ret[j] : j \in 1..Len(r.ret)}

Findings(r) ==
  LET o == r.out IN
  (IF o.k = "panic" THEN << [prop |-> "C04", rule |-> "NoPanic"] >> ELSE <<>>)
  \o (IF o.k = "timeout" THEN << [prop |-> "C05", rule |-> "Terminates"] >> ELSE <<>>)
  \o (IF o.k = "died" THEN << [prop |-> "C05", rule |-> "WorkerDied"] >> ELSE <<>>)
  \o (IF o.k = "ok" /\ r.declared.known /\ ~InKindExpr(o.v, r.declared.kd)
        THEN << [prop |-> "C03", rule |-> (IF r.wrong_runtime_arg THEN "K3-IllTypedOkOnWrongArgument" ELSE "K1-ResultInDeclaredKind")] >> ELSE <<>>)
  \o (IF o.k = "ok" /\ PrimTag(o.v) \notin RetSet(r)
        THEN << [prop |-> "C03", rule |-> "K1-ResultInReturnKinds"] >> ELSE <<>>)
  \o (IF o.k = "err" /\ r.declared.known /\ ~r.declared.fal
        THEN << [prop |-> "C03", rule |-> "K2-InfallibleCallErrs"] >> ELSE <<>>)

RECURSIVE AddAll(_, _)
AddAll(vs, fs) == IF fs = <<>> THEN vs
                  ELSE AddAll(Append(vs, [prop |-> Head(fs).prop, rule |-> Head(fs).rule, at |-> Ev.f, prog |-> 0, line |-> l,
                                          what |-> [src |-> Ev.src, out |-> Ev.out]]), Tail(fs))

T_Call ==
  /\ l <= Len(Rec) /\ Ev.e = "call"
  /\ viols' = AddAll(viols, Findings(Ev))
  /\ cnt' = LET c1 == Bump(cnt, "calls")
                c2 == Bump(c1, Ev.out.k)
                c3 == IF Ev.out.k = "ok" /\ Ev.declared.known THEN Bump(c2, "k1_checked") ELSE c2
                c4 == IF Ev.declared.known /\ ~Ev.declared.fal /\ Ev.out.k \in {"ok", "err"} THEN Bump(c3, "k2_checked") ELSE c3
                c5 == IF Ev.wrong_runtime_arg THEN Bump(c4, "wrong_runtime_arg") ELSE c4
            IN c5
  /\ l' = l + 1

Init == l = 1 /\ viols = <<>>
        /\ cnt = [c \in {"calls", "ok", "err", "panic", "timeout", "died", "rejected", "k1_checked", "k2_checked", "wrong_runtime_arg"} |-> 0]
Next == T_Call
TraceSpec == Init /\ [][Next]_cvars
Report == (l = Len(Rec) + 1) =>
   PrintT(<<"RESULT", ToJson([consumed |-> l - 1, viols |-> viols, divs |-> <<>>, cnt |-> cnt])>>)
TraceAccepted == \/ TLCGet("stats").diameter - 1 = Len(Rec)
                 \/ PrintT(<<"STUCK", TLCGet("stats").diameter, Len(Rec)>>)
=============================================================================
