------------------------------- MODULE GenOps -------------------------------
(* Operand pools for C10 / C11 (edge values of every comparable kind), printed once. *)
EXTENDS Ops, Json, SequencesExt

I(w) == [t |-> "int", w |-> w]
Fl(b) == [t |-> "float", b |-> b]
B(c) == [t |-> "bytes", c |-> c]
T(w) == [t |-> "ts", w |-> w]
M == 65535
Ints == { I(<<0,0,0,0>>), I(<<0,0,0,1>>), I(<<M,M,M,M>>), I(<<0,0,0,2>>), I(<<M,M,M,M-1>>), I(<<0,0,0,3>>), I(<<0,0,0,10>>),
          I(<<M,M,M,M-9>>), I(<<0,0,32768,0>>), I(<<0,1,0,0>>), I(<<32,0,0,0>>), I(<<32,0,0,1>>), I(<<31,M,M,M>>),
          I(<<M-32,M,M,M>>), I(<<16384,0,0,0>>), I(<<32767,M,M,M>>), I(<<32767,M,M,M-1>>), I(<<32768,0,0,0>>), I(<<32768,0,0,1>>),
          I(<<0,0,1,0>>), I(<<0,0,0,255>>), I(<<0,0,0,256>>) }
Floats == { Fl(<<0,0,0,0>>), Fl(<<32768,0,0,0>>), Fl(<<16368,0,0,0>>), Fl(<<49136,0,0,0>>), Fl(<<16352,0,0,0>>), Fl(<<16376,0,0,0>>),
            Fl(<<16384,0,0,0>>), Fl(<<16392,0,0,0>>), Fl(<<17216,0,0,0>>), Fl(<<17216,0,0,1>>), Fl(<<32752,0,0,0>>), Fl(<<65520,0,0,0>>),
            Fl(<<0,0,0,1>>), Fl(<<32768,0,0,1>>), Fl(<<32311,58428,34816,30108>>), Fl(<<32751,M,M,M>>), Fl(<<65519,M,M,M>>),
            Fl(<<17392,0,0,0>>), Fl(<<50160,0,0,0>>) }
Strs == { B(<<>>), B(<<97>>), B(<<98>>), B(<<97,98>>), B(<<97,0>>), B(<<255>>), B(<<97,97>>), B(<<65>>) }
Stamps == { T(<<0,0,0,0>>), T(<<0,0,0,1>>), T(<<M,M,M,M>>), T(<<4096,0,0,0>>), T(<<0,1,0,0>>) }
Others == { [t |-> "null"], [t |-> "bool", v |-> TRUE], [t |-> "bool", v |-> FALSE],
            [t |-> "arr", e |-> <<I(<<0,0,0,1>>)>>], [t |-> "arr", e |-> <<I(<<0,0,0,1>>), B(<<97>>)>>], [t |-> "arr", e |-> <<>>],
            [t |-> "obj", m |-> [a |-> I(<<0,0,0,1>>)]], [t |-> "obj", m |-> [a |-> I(<<0,0,0,2>>)]], [t |-> "obj", m |-> <<>>] }
ASSUME PrintT(<<"INTS", ToJson(SetToSeq(Ints))>>)
ASSUME PrintT(<<"FLOATS", ToJson(SetToSeq(Floats))>>)
ASSUME PrintT(<<"STRS", ToJson(SetToSeq(Strs))>>)
ASSUME PrintT(<<"STAMPS", ToJson(SetToSeq(Stamps))>>)
ASSUME PrintT(<<"OTHERS", ToJson(SetToSeq(Others))>>)
\* self-test of the limb arithmetic on facts that do not need big numbers
ASSUME AddW(<<32767,M,M,M>>, One) = <<32768,0,0,0>>            \* MAX + 1 wraps to MIN
ASSUME NegW(<<32768,0,0,0>>) = <<32768,0,0,0>>                   \* -MIN = MIN
ASSUME MulW(<<0,0,1,0>>, <<0,0,1,0>>) = <<0,1,0,0>>              \* 2^16 * 2^16 = 2^32
ASSUME MulW(<<M,M,M,M>>, <<M,M,M,M>>) = One                      \* -1 * -1 = 1
ASSUME MulW(<<32768,0,0,0>>, <<0,0,0,2>>) = Zero                 \* MIN * 2 wraps to 0
ASSUME LtW(<<32768,0,0,0>>, <<32767,M,M,M>>) /\ ~LtW(One, <<M,M,M,M>>)
ASSUME FLt(<<65520,0,0,0>>, <<32768,0,0,1>>) /\ FLt(<<32768,0,0,1>>, <<0,0,0,1>>) /\ ~FLt(<<0,0,0,0>>, <<32768,0,0,0>>)
VARIABLE dummy
Init == dummy = 0
Next == UNCHANGED dummy
Spec == Init /\ [][Next]_dummy
=============================================================================
