----------------------------- MODULE TracePaths -----------------------------
(***************************************************************************)
(* C20 - paths round-trip through text and all path parsers agree.         *)
(*  pathrt    the REAL rendering of an owned path, and what the real       *)
(*            parsers (parse_value_path, parse_target_path with both       *)
(*            prefixes, the TryFrom<String> conversions) make of it         *)
(*  pathtext  what the real path-string parsers and the real VRL compiler  *)
(*            (the text used as a query expression) make of a text         *)
(* R1  parse(render(p)) = p  (value path, target path with either prefix,  *)
(*     string conversions)                                                  *)
(* R2  a text accepted both as a VRL query and by parse_target_path        *)
(*     denotes the same location                                            *)
(* R3  (divergence only) the transcribed renderer / state machine of       *)
(*     PathSyntax.tla agree with the code                                   *)
(***************************************************************************)
EXTENDS PathSyntax, Json, IOUtils

Rec == ndJsonDeserialize(IOEnv.TRACE)
VARIABLES l, viols, divs, cnt
pvars == <<l, viols, divs, cnt>>
Ev == Rec[l]
Bump(c, name) == [c EXCEPT ![name] = @ + 1]

Shape(p) == IF p = <<>> THEN "root"
            ELSE IF \E j \in 1..Len(p) : IsF(p[j]) /\ NeedsQuotes(p[j].fc) THEN "quoted-field" ELSE "plain"

\* a field the VRL lexer does not take unquoted although the renderer leaves it unquoted: it starts
\* with a digit, or is a lone underscore
LexerHostile(p) == \E j \in 1..Len(p) : IsF(p[j]) /\ ~NeedsQuotes(p[j].fc)
                                          /\ (p[j].fc[1] \in DigitSet \/ p[j].fc = <<"_">>)

RtLaws(r) ==
  (IF r.parsed.ok /\ r.parsed.p = r.p THEN <<>> ELSE << "R1-ValuePathRoundTrip" >>)
  \o (IF r.serde.ok /\ r.serde.p = r.p THEN <<>> ELSE << "R1-ValuePathStringConversion" >>)
  \o (IF \A j \in 1..Len(r.tgt) : r.tgt[j].parsed.ok /\ r.tgt[j].parsed.pre = r.tgt[j].pre /\ r.tgt[j].parsed.p = r.p
        THEN <<>> ELSE << "R1-TargetPathRoundTrip" >>)
  \* the rendered target path, written in VRL source, is a query of exactly that location
  \o (IF \A j \in 1..Len(r.tgt) : r.tgt[j].vrl.ok /\ r.tgt[j].vrl.pre = r.tgt[j].pre /\ r.tgt[j].vrl.p = r.p
        THEN <<>> ELSE << "R2-RenderedPathIsThatVrlPath" >>)
  \o (IF \A j \in 1..Len(r.tgt) : r.tgt[j].serde.ok /\ r.tgt[j].serde.pre = r.tgt[j].pre /\ r.tgt[j].serde.p = r.p
        THEN <<>> ELSE << "R1-TargetPathStringConversion" >>)

T_Rt ==
  /\ l <= Len(Rec) /\ Ev.e = "pathrt"
  /\ LET ls == RtLaws(Ev) IN
     /\ viols' = (IF ls = <<>> THEN viols
                  ELSE Append(viols, [prop |-> "C20", rule |-> ls[1],
                                      at |-> (IF ls[1] = "R2-RenderedPathIsThatVrlPath" /\ LexerHostile(Ev.p)
                                              THEN "unquoted-field-the-lexer-rejects" ELSE Shape(Ev.p)),
                                      prog |-> 0, line |-> l,
                                      what |-> [p |-> Ev.p, text |-> Ev.text, all |-> ls]]))
     /\ divs' = (IF Ev.text = Render(Ev.p) \/ Len(divs) >= 20 THEN divs
                 ELSE Append(divs, [prop |-> "D", rule |-> "Render", at |-> "PathSyntax.tla", line |-> l,
                                    what |-> [p |-> Ev.p, real |-> Ev.text, model |-> Render(Ev.p)]]))
     /\ cnt' = Bump(Bump(cnt, "paths"), IF Shape(Ev.p) = "quoted-field" THEN "quoted" ELSE "unquoted")
  /\ l' = l + 1

T_Text ==
  /\ l <= Len(Rec) /\ Ev.e = "pathtext"
  /\ LET both == Ev.vrl.ok /\ Ev.target.ok
         agree == Ev.vrl.pre = Ev.target.pre /\ Ev.vrl.p = Ev.target.p
         m == Parse(Ev.t)
         same == m.ok = Ev.value.ok /\ (m.ok => m.p = Ev.value.p)
     IN
     /\ viols' = (IF both /\ ~agree
                  THEN Append(viols, [prop |-> "C20", rule |-> "R2-VrlAndPathParserAgree", at |-> "text", prog |-> 0, line |-> l,
                                      what |-> [t |-> Ev.t, vrl |-> Ev.vrl, target |-> Ev.target]])
                  ELSE viols)
     /\ divs' = (IF same \/ Len(divs) >= 20 THEN divs
                 ELSE Append(divs, [prop |-> "D", rule |-> "Parse", at |-> "PathSyntax.tla", line |-> l,
                                    what |-> [t |-> Ev.t, real |-> Ev.value, model |-> m]]))
     /\ cnt' = LET c1 == Bump(cnt, "texts")
                   c2 == IF Ev.value.ok THEN Bump(c1, "texts_accepted") ELSE c1
                   c3 == IF both THEN Bump(c2, "texts_both_parsers") ELSE c2
                   c4 == IF ~same THEN Bump(c3, "model_divergences") ELSE c3
               IN c4
  /\ l' = l + 1

T_Panic ==
  /\ l <= Len(Rec) /\ Ev.e = "panic"
  /\ viols' = Append(viols, [prop |-> "C04", rule |-> "NoPanic", at |-> Ev.where, prog |-> 0, line |-> l, what |-> [got |-> Ev.message]])
  /\ cnt' = cnt /\ divs' = divs
  /\ l' = l + 1

Init == l = 1 /\ viols = <<>> /\ divs = <<>>
        /\ cnt = [c \in {"paths", "quoted", "unquoted", "texts", "texts_accepted", "texts_both_parsers", "model_divergences"} |-> 0]
Next == T_Rt \/ T_Text \/ T_Panic
TraceSpec == Init /\ [][Next]_pvars
Report == (l = Len(Rec) + 1) =>
   PrintT(<<"RESULT", ToJson([consumed |-> l - 1, viols |-> viols, divs |-> divs, cnt |-> cnt])>>)
TraceAccepted == \/ TLCGet("stats").diameter - 1 = Len(Rec)
                 \/ PrintT(<<"STUCK", TLCGet("stats").diameter, Len(Rec)>>)
=============================================================================
