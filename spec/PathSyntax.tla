----------------------------- MODULE PathSyntax -----------------------------
(***************************************************************************)
(* The textual syntax of value / target paths:                             *)
(*   Render  - transcribed from `From<&OwnedValuePath> for String` and      *)
(*             serialize_field (src/path/owned.rs)                         *)
(*   Parse   - the hand-written JIT state machine of src/path/jit.rs,      *)
(*             state by state (Start, EventRoot, Continue, Dot,            *)
(*             IndexStart, Index, NegativeIndex, Field, Quote,             *)
(*             EscapedQuote, End)                                          *)
(* Texts are sequences of one-character strings; a path is a sequence of   *)
(* segments [fc |-> <<chars>>] (field) or [i |-> n] (index).               *)
(***************************************************************************)
EXTENDS Naturals, Integers, Sequences, FiniteSets, TLC

Lower == {"a", "b", "c", "z"}     Upper == {"A", "Z"}
Digits == <<"0", "1", "2", "3", "4", "5", "6", "7", "8", "9">>
DigitSet == {Digits[j] : j \in 1..10}
DigitVal(c) == (CHOOSE j \in 1..10 : Digits[j] = c) - 1
\* characters the parser accepts in an unquoted field ('A'..='Z' | 'a'..='z' | '_' | '0'..='9' | '@' | '-')
\* restricted to the characters of the bounded alphabets used by the generators
IsFieldChar(c) == c \in Lower \cup Upper \cup DigitSet \cup {"_", "@", "-"}
\* characters serialize_field leaves unquoted ('A'..='Z' | 'a'..='z' | '_' | '0'..='9' | '@')
IsPlainChar(c) == c \in Lower \cup Upper \cup DigitSet \cup {"_", "@"}

IsF(s) == "fc" \in DOMAIN s
IsI(s) == "i" \in DOMAIN s

(* ---------- rendering ---------- *)
RECURSIVE NatDigits(_)
NatDigits(n) == IF n < 10 THEN <<Digits[n + 1]>> ELSE NatDigits(n \div 10) \o <<Digits[(n % 10) + 1]>>
IntChars(n) == IF n < 0 THEN <<"-">> \o NatDigits(-n) ELSE NatDigits(n)

RECURSIVE Escaped(_)
Escaped(cs) == IF cs = <<>> THEN <<>>
               ELSE (IF Head(cs) \in {"\"", "\\"} THEN <<"\\", Head(cs)>> ELSE <<Head(cs)>>) \o Escaped(Tail(cs))
NeedsQuotes(cs) == cs = <<>> \/ \E j \in 1..Len(cs) : ~IsPlainChar(cs[j])
RenderField(cs) == IF NeedsQuotes(cs) THEN <<"\"">> \o Escaped(cs) \o <<"\"">> ELSE cs

RECURSIVE RenderFrom(_, _)
RenderFrom(p, first) ==
  IF p = <<>> THEN <<>>
  ELSE LET s == Head(p) IN
       (IF IsF(s) THEN (IF first THEN <<>> ELSE <<".">>) \o RenderField(s.fc)
        ELSE <<"[">> \o IntChars(s.i) \o <<"]">>)
       \o RenderFrom(Tail(p), FALSE)
Render(p) == RenderFrom(p, TRUE)
RenderTarget(pre, p) == <<(IF pre = "event" THEN "." ELSE "%")>> \o Render(p)

(* ---------- the JIT state machine ---------- *)
\* machine state: st (state name), acc (segments so far), buf (chars of the current field /
\* escape buffer), val (index value)
Bad == [ok |-> FALSE, p |-> <<>>]
RECURSIVE Run(_, _, _, _, _)
Run(t, st, acc, buf, val) ==
  IF t = <<>> THEN
     \* end of input
     CASE st \in {"Start", "IndexStart", "Index", "NegativeIndex", "Quote", "EscapedQuote", "Dot"} -> Bad
       [] st \in {"Continue", "EventRoot", "End"} -> [ok |-> TRUE, p |-> acc]
       [] st = "Field" -> [ok |-> TRUE, p |-> Append(acc, [fc |-> buf])]
  ELSE
     LET c == Head(t)  r == Tail(t) IN
     CASE st = "Start" ->
            (CASE c = "." -> Run(r, "EventRoot", acc, <<>>, 0)
               [] IsFieldChar(c) -> Run(r, "Field", acc, <<c>>, 0)
               [] c = "[" -> Run(r, "IndexStart", acc, <<>>, 0)
               [] c = "\"" -> Run(r, "Quote", acc, <<>>, 0)
               [] OTHER -> Bad)
       [] st = "Continue" ->
            (CASE c = "." -> Run(r, "Dot", acc, <<>>, 0)
               [] IsFieldChar(c) -> Run(r, "Field", acc, <<c>>, 0)
               [] c = "[" -> Run(r, "IndexStart", acc, <<>>, 0)
               [] c = "\"" -> Run(r, "Quote", acc, <<>>, 0)
               [] OTHER -> Bad)
       [] st = "EventRoot" ->
            (CASE IsFieldChar(c) -> Run(r, "Field", acc, <<c>>, 0)
               [] c = "[" -> Run(r, "IndexStart", acc, <<>>, 0)
               [] c = "\"" -> Run(r, "Quote", acc, <<>>, 0)
               [] OTHER -> Bad)
       [] st = "Dot" ->
            (CASE IsFieldChar(c) -> Run(r, "Field", acc, <<c>>, 0)
               [] c = "\"" -> Run(r, "Quote", acc, <<>>, 0)
               [] OTHER -> Bad)
       [] st = "Field" ->
            (CASE IsFieldChar(c) -> Run(r, "Field", acc, Append(buf, c), 0)
               [] c = "." -> Run(r, "Dot", Append(acc, [fc |-> buf]), <<>>, 0)
               [] c = "[" -> Run(r, "IndexStart", Append(acc, [fc |-> buf]), <<>>, 0)
               [] OTHER -> Bad)
       [] st = "Quote" ->
            \* the code restarts the quoted field in copying mode at the first backslash; the chars
            \* seen so far are re-read, which is the same as carrying them over in `buf`
            (CASE c = "\"" -> Run(r, "Continue", Append(acc, [fc |-> buf]), <<>>, 0)
               [] c = "\\" -> Run(t, "EscapedQuote", acc, buf, 0)
               [] OTHER -> Run(r, "Quote", acc, Append(buf, c), 0))
       [] st = "EscapedQuote" ->
            (CASE c = "\"" -> Run(r, "Continue", Append(acc, [fc |-> buf]), <<>>, 0)
               [] c = "\\" -> (IF r # <<>> /\ Head(r) \in {"\\", "\""}
                               THEN Run(Tail(r), "EscapedQuote", acc, Append(buf, Head(r)), 0)
                               ELSE Bad)
               [] OTHER -> Run(r, "EscapedQuote", acc, Append(buf, c), 0))
       [] st = "IndexStart" ->
            (CASE c \in DigitSet -> Run(r, "Index", acc, <<>>, DigitVal(c))
               [] c = "-" -> Run(r, "NegativeIndex", acc, <<>>, 0)
               [] OTHER -> Bad)
       [] st = "Index" ->
            (CASE c \in DigitSet -> Run(r, "Index", acc, <<>>, val * 10 + DigitVal(c))
               [] c = "]" -> Run(r, "Continue", Append(acc, [i |-> val]), <<>>, 0)
               [] OTHER -> Bad)
       [] st = "NegativeIndex" ->
            (CASE c \in DigitSet -> Run(r, "NegativeIndex", acc, <<>>, val * 10 - DigitVal(c))
               [] c = "]" -> Run(r, "Continue", Append(acc, [i |-> val]), <<>>, 0)
               [] OTHER -> Bad)

Parse(t) == Run(t, "Start", <<>>, <<>>, 0)

\* get_target_prefix + parse_value_path (src/path/mod.rs): a leading "." is NOT consumed
\* (the value-path machine accepts it), a leading "%" is
ParseTarget(t) ==
  IF t # <<>> /\ Head(t) = "%" THEN [pre |-> "meta", r |-> Parse(Tail(t))]
  ELSE [pre |-> "event", r |-> Parse(t)]
=============================================================================
