------------------------------ MODULE GenProto ------------------------------
(* Prints the schema of Proto.tla for the driver that generates typed messages. *)
EXTENDS Proto, Json, TLC
ASSUME PrintT(<<"PROTO_SCHEMA", ToJson(Schema)>>)
ASSUME PrintT(<<"PROTO_ENUMS", ToJson(Enums)>>)
ASSUME PrintT(<<"PROTO_DESC", ToJson(DescFile)>>)
VARIABLE dummy
Init == dummy = 0
Next == UNCHANGED dummy
Spec == Init /\ [][Next]_dummy
=============================================================================
