-------------------------------- MODULE Sha --------------------------------
(***************************************************************************)
(* MD5 (RFC 1321), SHA-1, SHA-224/256/384/512 (FIPS 180-4) on words that  *)
(* are sequences of bits, most significant first.  One call of Round is   *)
(* one round of the compression function; ShaTrace-style actions in        *)
(* CrcTrace.tla advance it one round per TLC step.                         *)
(***************************************************************************)
EXTENDS Crc, ShaConsts

RECURSIVE AndW(_, _), OrW(_, _), NotW(_)
AndW(a, b) == IF a = <<>> THEN <<>> ELSE <<Head(a) * Head(b)>> \o AndW(Tail(a), Tail(b))
OrW(a, b) == IF a = <<>> THEN <<>> ELSE <<IF Head(a) + Head(b) > 0 THEN 1 ELSE 0>> \o OrW(Tail(a), Tail(b))
NotW(a) == IF a = <<>> THEN <<>> ELSE <<1 - Head(a)>> \o NotW(Tail(a))
RotR(x, n) == SubSeq(x, Len(x) - n + 1, Len(x)) \o SubSeq(x, 1, Len(x) - n)
RotL(x, n) == RotR(x, Len(x) - n)
ShR(x, n) == Zeros(n) \o SubSeq(x, 1, Len(x) - n)
\* addition modulo 2^width: ripple carry from the last (least significant) bit
RECURSIVE AddC(_, _, _)
AddC(x, y, c) == IF x = <<>> THEN <<>>
                 ELSE LET n == Len(x)  sum == x[n] + y[n] + c
                      IN AddC(SubSeq(x, 1, n - 1), SubSeq(y, 1, n - 1), sum \div 2) \o <<sum % 2>>
Add(x, y) == AddC(x, y, 0)
Xor3(a, b, c) == Xor(Xor(a, b), c)
Ch(e, f, g) == Xor(AndW(e, f), AndW(NotW(e), g))
Maj(a, b, c) == Xor3(AndW(a, b), AndW(a, c), AndW(b, c))
RECURSIVE BytesBits(_)
BytesBits(bs) == IF bs = <<>> THEN <<>> ELSE ByteBits(Head(bs)) \o BytesBits(Tail(bs))
HexWords(hs) == [j \in 1..Len(hs) |-> HexToBits(hs[j])]

\* algorithm parameters
Algo(name) ==
  CASE name = "md5" -> [kind |-> "md5", wb |-> 4, rounds |-> 64, iv |-> HexWords(IVMD5), K |-> HexWords(KMD5), out |-> 4, lenb |-> 8, little |-> TRUE]
    [] name = "sha1" -> [kind |-> "sha1", wb |-> 4, rounds |-> 80, iv |-> HexWords(IVSHA1), K |-> HexWords(KSHA1), out |-> 5, lenb |-> 8, little |-> FALSE]
    [] name = "SHA-256" -> [kind |-> "sha2", wb |-> 4, rounds |-> 64, iv |-> HexWords(IV256), K |-> HexWords(K256), out |-> 8, lenb |-> 8, little |-> FALSE]
    [] name = "SHA-224" -> [kind |-> "sha2", wb |-> 4, rounds |-> 64, iv |-> HexWords(IV224), K |-> HexWords(K256), out |-> 7, lenb |-> 8, little |-> FALSE]
    [] name = "SHA-512" -> [kind |-> "sha2", wb |-> 8, rounds |-> 80, iv |-> HexWords(IV512), K |-> HexWords(K512), out |-> 8, lenb |-> 16, little |-> FALSE]
    [] name = "SHA-384" -> [kind |-> "sha2", wb |-> 8, rounds |-> 80, iv |-> HexWords(IV384), K |-> HexWords(K512), out |-> 6, lenb |-> 16, little |-> FALSE]
    [] name = "SHA-512/224" -> [kind |-> "sha2", wb |-> 8, rounds |-> 80, iv |-> HexWords(IV512_224), K |-> HexWords(K512), out |-> 4, lenb |-> 16, little |-> FALSE]
    [] name = "SHA-512/256" -> [kind |-> "sha2", wb |-> 8, rounds |-> 80, iv |-> HexWords(IV512_256), K |-> HexWords(K512), out |-> 4, lenb |-> 16, little |-> FALSE]
Modelled == {"md5", "sha1", "SHA-224", "SHA-256", "SHA-384", "SHA-512", "SHA-512/224", "SHA-512/256"}
\* digest length in bytes (SHA-512/224 ends in the middle of a word)
OutBytes(name) == CASE name = "md5" -> 16 [] name = "sha1" -> 20 [] name \in {"SHA-224", "SHA-512/224"} -> 28 [] name \in {"SHA-256", "SHA-512/256"} -> 32
                    [] name = "SHA-384" -> 48 [] name = "SHA-512" -> 64

(* ---------- padding and blocks ---------- *)
\* n as `k` big-endian bytes (n < 2^31)
RECURSIVE NumBytes(_, _)
NumBytes(n, k) == IF k = 0 THEN <<>> ELSE NumBytes(n \div 256, k - 1) \o <<n % 256>>
Padded(A, msg) ==
  LET block == 16 * A.wb
      used == (Len(msg) + 1 + A.lenb) % block
      fill == IF used = 0 THEN 0 ELSE block - used
      len == NumBytes(8 * Len(msg), A.lenb)
  IN msg \o <<128>> \o Zeros(fill) \o (IF A.little THEN Rev(len) ELSE len)
NBlocks(A, msg) == Len(Padded(A, msg)) \div (16 * A.wb)
\* word j (1..16) of block b (1..)
BlockWord(A, msg, b, j) ==
  LET start == (b - 1) * 16 * A.wb + (j - 1) * A.wb
      bs == SubSeq(Padded(A, msg), start + 1, start + A.wb)
  IN BytesBits(IF A.little THEN Rev(bs) ELSE bs)

(* ---------- one round ---------- *)
\* state: v working words, w schedule so far (sha1 / sha2), t round number (0-based), m the 16 block words
S2(A, x, which) ==
  IF A.wb = 4
  THEN CASE which = "S0" -> Xor3(RotR(x, 2), RotR(x, 13), RotR(x, 22)) [] which = "S1" -> Xor3(RotR(x, 6), RotR(x, 11), RotR(x, 25))
         [] which = "s0" -> Xor3(RotR(x, 7), RotR(x, 18), ShR(x, 3)) [] which = "s1" -> Xor3(RotR(x, 17), RotR(x, 19), ShR(x, 10))
  ELSE CASE which = "S0" -> Xor3(RotR(x, 28), RotR(x, 34), RotR(x, 39)) [] which = "S1" -> Xor3(RotR(x, 14), RotR(x, 18), RotR(x, 41))
         [] which = "s0" -> Xor3(RotR(x, 1), RotR(x, 8), ShR(x, 7)) [] which = "s1" -> Xor3(RotR(x, 19), RotR(x, 61), ShR(x, 6))
Md5Shift == <<7, 12, 17, 22, 7, 12, 17, 22, 7, 12, 17, 22, 7, 12, 17, 22, 5, 9, 14, 20, 5, 9, 14, 20, 5, 9, 14, 20, 5, 9, 14, 20,
              4, 11, 16, 23, 4, 11, 16, 23, 4, 11, 16, 23, 4, 11, 16, 23, 6, 10, 15, 21, 6, 10, 15, 21, 6, 10, 15, 21, 6, 10, 15, 21>>
ScheduleWord(A, m, w, t) ==
  IF t < 16 THEN m[t + 1]
  ELSE IF A.kind = "sha2" THEN Add(Add(S2(A, w[t - 1], "s1"), w[t - 6]), Add(S2(A, w[t - 14], "s0"), w[t - 15]))     \* w is 1-based: W[t-2] = w[t-1]
  ELSE RotL(Xor(Xor(w[t - 2], w[t - 7]), Xor(w[t - 13], w[t - 15])), 1)
Round(A, v, w, m, t) ==
  CASE A.kind = "sha2" ->
         LET wt == ScheduleWord(A, m, w, t)
             T1 == Add(Add(Add(v[8], S2(A, v[5], "S1")), Add(Ch(v[5], v[6], v[7]), A.K[t + 1])), wt)
             T2 == Add(S2(A, v[1], "S0"), Maj(v[1], v[2], v[3]))
         IN [v |-> <<Add(T1, T2), v[1], v[2], v[3], Add(v[4], T1), v[5], v[6], v[7]>>, w |-> Append(w, wt)]
    [] A.kind = "sha1" ->
         LET wt == ScheduleWord(A, m, w, t)
             f == IF t < 20 THEN Ch(v[2], v[3], v[4]) ELSE IF t < 40 THEN Xor3(v[2], v[3], v[4]) ELSE IF t < 60 THEN Maj(v[2], v[3], v[4]) ELSE Xor3(v[2], v[3], v[4])
             kk == A.K[(t \div 20) + 1]
             tmp == Add(Add(Add(RotL(v[1], 5), f), Add(v[5], kk)), wt)
         IN [v |-> <<tmp, v[1], RotL(v[2], 30), v[3], v[4]>>, w |-> Append(w, wt)]
    [] A.kind = "md5" ->
         LET a == v[1]  b == v[2]  c == v[3]  d == v[4]
             f == IF t < 16 THEN OrW(AndW(b, c), AndW(NotW(b), d)) ELSE IF t < 32 THEN OrW(AndW(d, b), AndW(NotW(d), c))
                  ELSE IF t < 48 THEN Xor3(b, c, d) ELSE Xor(c, OrW(b, NotW(d)))
             g == IF t < 16 THEN t ELSE IF t < 32 THEN (5 * t + 1) % 16 ELSE IF t < 48 THEN (3 * t + 5) % 16 ELSE (7 * t) % 16
             sum == Add(Add(f, a), Add(A.K[t + 1], m[g + 1]))
         IN [v |-> <<d, Add(b, RotL(sum, Md5Shift[t + 1])), b, c>>, w |-> w]
AddWords(h, v) == [j \in 1..Len(h) |-> Add(h[j], v[j])]

(* ---------- output ---------- *)
HexChar(n) == IF n < 10 THEN 48 + n ELSE 87 + n
RECURSIVE HexOf(_)
HexOf(bs) == IF bs = <<>> THEN <<>> ELSE <<HexChar(Head(bs) \div 16), HexChar(Head(bs) % 16)>> \o HexOf(Tail(bs))
RECURSIVE WordsBytes(_, _)
WordsBytes(ws, little) == IF ws = <<>> THEN <<>> ELSE (IF little THEN Rev(BitsToBytes(Head(ws))) ELSE BitsToBytes(Head(ws))) \o WordsBytes(Tail(ws), little)
DigestHex(A, h, name) == HexOf(SubSeq(WordsBytes(SubSeq(h, 1, A.out), A.little), 1, OutBytes(name)))

(* ---------- SHA-3 (FIPS 202): Keccak-f[1600] on 25 lanes of 64 bits, each lane LEAST significant bit first ---------- *)
LaneIdx(x, y) == (x % 5) + 5 * (y % 5) + 1
ZeroLane == Zeros(64)
RotLane(ln, n) == IF n = 0 THEN ln ELSE SubSeq(ln, 64 - n + 1, 64) \o SubSeq(ln, 1, 64 - n)       \* towards higher bit numbers
KeccakRound(A, ir) ==
  LET C(x) == Xor(Xor(Xor(A[LaneIdx(x, 0)], A[LaneIdx(x, 1)]), Xor(A[LaneIdx(x, 2)], A[LaneIdx(x, 3)])), A[LaneIdx(x, 4)])
      D(x) == Xor(C((x + 4) % 5), RotLane(C((x + 1) % 5), 1))
      T == [i \in 1..25 |-> Xor(A[i], D((i - 1) % 5))]                                                  \* theta
      B(X0, Y) == LET X == X0 % 5  x == (X + 3 * Y) % 5  y == X IN RotLane(T[LaneIdx(x, y)], KeccakRot[x + 1][y + 1])    \* rho and pi
      E == [i \in 1..25 |-> LET x == (i - 1) % 5  y == (i - 1) \div 5 IN Xor(B(x, y), AndW(NotW(B(x + 1, y)), B(x + 2, y)))]   \* chi
  IN [i \in 1..25 |-> IF i = 1 THEN Xor(E[1], KeccakRC[ir + 1]) ELSE E[i]]                                \* iota
Sha3Params(name) == CASE name = "SHA3-224" -> [rate |-> 144, out |-> 28] [] name = "SHA3-256" -> [rate |-> 136, out |-> 32]
                      [] name = "SHA3-384" -> [rate |-> 104, out |-> 48] [] name = "SHA3-512" -> [rate |-> 72, out |-> 64]
Sha3Names == {"SHA3-224", "SHA3-256", "SHA3-384", "SHA3-512"}
Sha3Padded(P, msg) == LET fill == P.rate - (Len(msg) % P.rate) IN
                      IF fill = 1 THEN msg \o <<134>> ELSE msg \o <<6>> \o Zeros(fill - 2) \o <<128>>
Sha3Blocks(P, msg) == Len(Sha3Padded(P, msg)) \div P.rate
ByteLsbBits(c) == Rev(ByteBits(c))
RECURSIVE BytesLsbBits(_)
BytesLsbBits(bs) == IF bs = <<>> THEN <<>> ELSE ByteLsbBits(Head(bs)) \o BytesLsbBits(Tail(bs))
\* the state after xoring block b (1-based) of the padded message into the first rate/8 lanes
Absorb(P, A, msg, b) ==
  LET blk == SubSeq(Sha3Padded(P, msg), (b - 1) * P.rate + 1, b * P.rate) IN
  [i \in 1..25 |-> IF i <= P.rate \div 8 THEN Xor(A[i], BytesLsbBits(SubSeq(blk, 8 * (i - 1) + 1, 8 * i))) ELSE A[i]]
ZeroState == [i \in 1..25 |-> ZeroLane]
RECURSIVE LsbBitsBytes(_)
LsbBitsBytes(b) == IF b = <<>> THEN <<>> ELSE BitsToBytes(Rev(SubSeq(b, 1, 8))) \o LsbBitsBytes(SubSeq(b, 9, Len(b)))
RECURSIVE LanesBytes(_)
LanesBytes(ls) == IF ls = <<>> THEN <<>> ELSE LsbBitsBytes(Head(ls)) \o LanesBytes(Tail(ls))
Sha3Hex(P, A) == HexOf(SubSeq(LanesBytes(SubSeq(A, 1, 9)), 1, P.out))         \* 9 lanes = 72 bytes >= the longest digest
=============================================================================
