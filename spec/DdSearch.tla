------------------------------ MODULE DdSearch ------------------------------
(***************************************************************************)
(* Datadog search: a generator of query TEXTS from the search grammar      *)
(* (terms, phrases, attributes, tags, reserved fields, prefix / infix      *)
(* wildcards, ranges, comparisons, existence, negation, AND / OR /         *)
(* juxtaposition, grouping, escapes), the query-tree datatype, and the     *)
(* compositional meaning of a query:                                        *)
(*    Matches(NOT q, e)  = ~Matches(q, e)                                   *)
(*    Matches(a AND b, e) = Matches(a, e) /\ Matches(b, e)   (also `a b`)   *)
(*    Matches(a OR b, e)  = Matches(a, e) \/ Matches(b, e)                  *)
(*    Matches((q), e)     = Matches(q, e)                                   *)
(*    Matches(f:[lo TO hi], e) = Matches(f:>=lo, e) /\ Matches(f:<=hi, e)   *)
(* (exclusive bounds use braces, open ends a star).  The leaf predicates are *)
(* taken from the real matcher; FnLaws!DdLaw checks the identities on the   *)
(* real results of match_datadog_query, and the text round trip             *)
(* parse(to_lucene(parse q)) = parse q on the real parser (C30).            *)
(***************************************************************************)
EXTENDS Sequences, FiniteSets, TLC, Json, SequencesExt

\* leaves: [q |-> text, shape |-> class]
L(q, s) == [q |-> q, shape |-> s]
Leaves == {
  L("x", "term"), L("xy", "term"), L("\"x y\"", "phrase"), L("x*", "prefix"), L("*y", "wildcard"), L("x?y", "wildcard"), L("x*y", "wildcard"),
  L("@a:x", "attr-term"), L("@a:\"x y\"", "attr-phrase"), L("@a:x*", "attr-prefix"), L("@a:*", "attr-exists"), L("@a:*x*", "attr-wildcard"),
  L("@b.c:1", "attr-term"), L("@n:>1", "comparison"), L("@n:>=1.5", "comparison"), L("@n:<2", "comparison"), L("@n:<=1", "comparison"),
  L("@n:[1 TO 2]", "range"), L("@n:{1 TO 2}", "range"), L("@n:[1 TO *]", "range"), L("@n:[* TO 2]", "range"), L("@a:[a TO y]", "range"),
  L("k:v", "tag"), L("k:v*", "tag-prefix"), L("k:*", "tag-exists"), L("k:\"v w\"", "tag-phrase"),
  L("service:x", "reserved"), L("host:h*", "reserved-prefix"), L("status:error", "reserved"), L("source:\"a b\"", "reserved-phrase"),
  L("_exists_:@a", "exists"), L("_missing_:@a", "missing"), L("_exists_:k", "exists"), L("_missing_:service", "missing"),
  L("*", "all"), L("*:*", "all"),
  L("a\\:b", "escape"), L("@a:x\\ y", "escape"), L("k:v\\-w", "escape"), L("\"a \\\" b\"", "escape"), L("x\\*", "escape"), L("@a:\\(x\\)", "escape"),
  L("-x", "negation"), L("NOT x", "negation"), L("-@a:x", "negation"), L("NOT k:v", "negation") }

\* combinators (text level)
And(a, b) == L(a.q \o " AND " \o b.q, "and")
Or(a, b)  == L(a.q \o " OR " \o b.q, "or")
Jux(a, b) == L(a.q \o " " \o b.q, "juxtaposition")
Grp(a)    == L("(" \o a.q \o ")", "group")
Neg(a)    == L("-(" \o a.q \o ")", "negated-group")
Not(a)    == L("NOT (" \o a.q \o ")", "negated-group")
Depth1 == {And(a, b) : a, b \in Leaves} \cup {Or(a, b) : a, b \in Leaves} \cup {Jux(a, b) : a, b \in Leaves}
          \cup {Grp(a) : a \in Leaves} \cup {Neg(a) : a \in Leaves} \cup {Not(a) : a \in Leaves}
\* depth 2 over a representative subset
Rep == {L("x", "term"), L("@a:x", "attr-term"), L("k:v", "tag"), L("@n:[1 TO 2]", "range"), L("-x", "negation"), L("\"x y\"", "phrase")}
D1Rep == {And(a, b) : a, b \in Rep} \cup {Or(a, b) : a, b \in Rep} \cup {Grp(a) : a \in Rep} \cup {Neg(a) : a \in Rep}
Depth2 == {And(Grp(a), b) : a \in D1Rep, b \in Rep} \cup {Or(a, Grp(b)) : a \in Rep, b \in D1Rep} \cup {Neg(a) : a \in D1Rep}
          \cup {Jux(Grp(a), Grp(b)) : a \in {And(x, y) : x, y \in Rep}, b \in {Or(x, y) : x, y \in {L("x", "term"), L("k:v", "tag")}}}
          \* a negated compound as an operand of AND / OR / juxtaposition, on either side (NOT binds tighter than AND, AND tighter than OR)
          \cup {And(b, Not(a)) : a \in D1Rep, b \in Rep} \cup {And(Neg(a), b) : a \in D1Rep, b \in Rep}
          \cup {Or(b, Not(a)) : a \in D1Rep, b \in Rep} \cup {Jux(Neg(a), b) : a \in D1Rep, b \in Rep}
          \cup {Or(Grp(And(a, b)), Not(Or(a, b))) : a, b \in Rep} \cup {And(Grp(Or(a, b)), Neg(And(a, b))) : a, b \in Rep}

ASSUME PrintT(<<"LEAVES", ToJson(SetToSeq(Leaves))>>)
ASSUME PrintT(<<"DEPTH1", ToJson(SetToSeq(Depth1))>>)
ASSUME PrintT(<<"DEPTH2", ToJson(SetToSeq(Depth2))>>)

(* ---------- universes of the leaf-semantics check (C31, FnLaws!DdLeaf) ---------- *)
\* attribute values and bounds in tenths; fl = carried as a float
NumVals == {[n10 |-> x, fl |-> FALSE] : x \in {-60, -50, 0, 10, 50, 60, 20}} \cup {[n10 |-> x, fl |-> TRUE] : x \in {-55, 55, 15, 50, -50, 5}}
NumBounds == {-55, -50, 0, 10, 15, 50, 55, 60}
StrVals == {<<120>>, <<120, 121>>, <<121>>, <<88>>, <<97, 98, 99>>, <<98>>, <<120, 32, 121>>, <<233>>, <<122, 233>>}
StrBounds == {<<120>>, <<98>>, <<120, 121>>, <<97, 98>>, <<233>>}
Globs == {<<120, 42>>, <<42, 121>>, <<120, 42, 121>>, <<42, 98, 42>>, <<97, 42, 99>>, <<42>>, <<120, 121, 42>>}
Tags == {<<>>, <<"k:v">>, <<"k:w", "z">>, <<"k:vv", "j:v">>, <<"kk:v">>, <<"k">>}
ASSUME PrintT(<<"NUMVALS", ToJson(SetToSeq(NumVals))>>)
ASSUME PrintT(<<"NUMBOUNDS", ToJson(SetToSeq(NumBounds))>>)
ASSUME PrintT(<<"STRVALS", ToJson(SetToSeq(StrVals))>>)
ASSUME PrintT(<<"STRBOUNDS", ToJson(SetToSeq(StrBounds))>>)
ASSUME PrintT(<<"GLOBS", ToJson(SetToSeq(Globs))>>)
ASSUME PrintT(<<"TAGS", ToJson(SetToSeq(Tags))>>)
VARIABLE dummy
Init == dummy = 0
Next == UNCHANGED dummy
Spec == Init /\ [][Next]_dummy
=============================================================================
