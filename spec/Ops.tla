--------------------------------- MODULE Ops ---------------------------------
(***************************************************************************)
(* Operator semantics of VRL on the operand encodings TLC can handle:      *)
(*   integers   64-bit two's complement as four 16-bit limbs <<l3..l0>>    *)
(*              (arithmetic internally on eight 8-bit limbs so that no     *)
(*              intermediate exceeds TLC's 32-bit integers)                *)
(*   floats     IEEE-754 binary64 bit patterns as four 16-bit limbs; only  *)
(*              classification and ORDER are modelled (sign / exponent /   *)
(*              mantissa), not arithmetic                                  *)
(*   strings    byte sequences                                             *)
(*   timestamps nanoseconds since the epoch as limbs                       *)
(***************************************************************************)
EXTENDS Naturals, Integers, Sequences, FiniteSets, TLC

(* ---------- 64-bit two's complement ---------- *)
\* 16-bit limbs (most significant first) <-> 8-bit limbs (least significant first)
ToBytes(w) == << w[4] % 256, w[4] \div 256, w[3] % 256, w[3] \div 256,
                 w[2] % 256, w[2] \div 256, w[1] % 256, w[1] \div 256 >>
FromBytes(b) == << b[8] * 256 + b[7], b[6] * 256 + b[5], b[4] * 256 + b[3], b[2] * 256 + b[1] >>

RECURSIVE AddB(_, _, _, _)
\* ripple-carry addition of byte j.. with carry c, result as a sequence of 9 - j bytes
AddB(a, b, j, c) == IF j > 8 THEN <<>>
                    ELSE LET s == a[j] + b[j] + c IN <<s % 256>> \o AddB(a, b, j + 1, s \div 256)
AddW(x, y) == FromBytes(AddB(ToBytes(x), ToBytes(y), 1, 0))
NotW(x) == <<65535 - x[1], 65535 - x[2], 65535 - x[3], 65535 - x[4]>>
One == <<0, 0, 0, 1>>
Zero == <<0, 0, 0, 0>>
NegW(x) == AddW(NotW(x), One)
SubW(x, y) == AddW(x, NegW(y))

\* schoolbook multiplication modulo 2^64: column k = sum of a[i] * b[k+1-i]
Col(a, b, k) == LET S[i \in 0..k] == IF i = 0 THEN 0 ELSE S[i - 1] + a[i] * b[k + 1 - i] IN S[k]
RECURSIVE MulB(_, _, _, _)
MulB(a, b, k, c) == IF k > 8 THEN <<>>
                    ELSE LET s == Col(a, b, k) + c IN <<s % 256>> \o MulB(a, b, k + 1, s \div 256)
MulW(x, y) == FromBytes(MulB(ToBytes(x), ToBytes(y), 1, 0))

NegativeW(x) == x[1] >= 32768
\* unsigned lexicographic order on limbs
RECURSIVE LtU(_, _, _)
LtU(x, y, j) == IF j > 4 THEN FALSE ELSE IF x[j] # y[j] THEN x[j] < y[j] ELSE LtU(x, y, j + 1)
\* signed order
LtW(x, y) == IF NegativeW(x) # NegativeW(y) THEN NegativeW(x) ELSE LtU(x, y, 1)

(* ---------- IEEE-754 binary64: classification and order ---------- *)
FSign(b) == b[1] >= 32768
FExp(b) == (b[1] % 32768) \div 16               \* 11 exponent bits
FMantZero(b) == (b[1] % 16) = 0 /\ b[2] = 0 /\ b[3] = 0 /\ b[4] = 0
FIsNaN(b) == FExp(b) = 2047 /\ ~FMantZero(b)
FIsInf(b) == FExp(b) = 2047 /\ FMantZero(b)
FIsZero(b) == FExp(b) = 0 /\ FMantZero(b)
\* magnitude = the bits without the sign: for non-NaN values the order of magnitudes is the
\* unsigned order of these bits
FMag(b) == <<b[1] % 32768, b[2], b[3], b[4]>>
FEq(x, y) == (FIsZero(x) /\ FIsZero(y)) \/ x = y
FLt(x, y) ==
  IF FIsZero(x) /\ FIsZero(y) THEN FALSE
  ELSE IF FSign(x) /\ ~FSign(y) THEN TRUE
  ELSE IF ~FSign(x) /\ FSign(y) THEN FALSE
  ELSE IF ~FSign(x) THEN LtU(FMag(x), FMag(y), 1)
  ELSE LtU(FMag(y), FMag(x), 1)

(* ---------- byte strings ---------- *)
RECURSIVE BytesLt(_, _)
BytesLt(a, b) == IF b = <<>> THEN FALSE
                 ELSE IF a = <<>> THEN TRUE
                 ELSE IF Head(a) # Head(b) THEN Head(a) < Head(b)
                 ELSE BytesLt(Tail(a), Tail(b))
RECURSIVE Repeat(_, _)
Repeat(s, n) == IF n <= 0 THEN <<>> ELSE s \o Repeat(s, n - 1)
\* small non-negative integer value of limbs (only called when the upper limbs are zero)
SmallNat(w) == w[4]
IsSmallNat(w) == w[1] = 0 /\ w[2] = 0 /\ w[3] = 0 /\ w[4] < 64
=============================================================================
