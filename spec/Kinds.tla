-------------------------------- MODULE Kinds --------------------------------
(***************************************************************************)
(* The Kind lattice of src/value/kind.rs in transport encoding, and the    *)
(* independent membership predicate InKind(v, k): "value v is one of the   *)
(* values the type k describes".  InKind is written from the documented    *)
(* meaning of a kind (type_def.rs, collection.rs, collection/unknown.rs),  *)
(* NOT from Kind::is_superset, so that it is an independent oracle.        *)
(*                                                                         *)
(*   kind  == [ p   |-> <<"bytes","integer",..,"undefined">>,  primitives  *)
(*              arr |-> coll,            present iff arrays are admitted   *)
(*              obj |-> coll ]           present iff objects are admitted  *)
(*   coll  == [ kn |-> known, un |-> unk ]                                 *)
(*            known of an object: [field |-> kind]                         *)
(*            known of an array : << <<index, kind>>, .. >>                *)
(*   unk   == [ x   |-> kind ]           Unknown::Exact (incl. undefined)  *)
(*          | [ inf |-> [p |-> prims, arr |-> BOOLEAN, obj |-> BOOLEAN] ]  *)
(*                                       Unknown::Infinite: the same flags *)
(*                                       apply to every nesting level      *)
(***************************************************************************)
EXTENDS Values

SeqRange(s) == {s[j] : j \in 1..Len(s)}

HasArr(k) == "arr" \in DOMAIN k
HasObj(k) == "obj" \in DOMAIN k
KPrims(k) == SeqRange(k.p)
AdmitsUndefined(k) == "undefined" \in KPrims(k)
IsNever(k) == KPrims(k) = {} /\ ~HasArr(k) /\ ~HasObj(k)

RECURSIVE InInf(_, _)
InInf(v, inf) ==
  CASE v.t = "arr" -> inf.arr /\ \A j \in 1..Len(v.e) : InInf(v.e[j], inf)
    [] v.t = "obj" -> inf.obj /\ \A f \in DOMAIN v.m : InInf(v.m[f], inf)
    [] OTHER       -> PrimTag(v) \in SeqRange(inf.p)

\* kind of array index i (0-based) if it is "known", else None
KnownIndex(kn, i) == LET hits == {j \in 1..Len(kn) : kn[j][1] = i}
                     IN IF hits = {} THEN None ELSE kn[CHOOSE j \in hits : TRUE][2]

RECURSIVE InKind(_, _)
UnkAdmits(u, v) == IF "x" \in DOMAIN u THEN InKind(v, u.x) ELSE InInf(v, u.inf)

InKind(v, k) ==
  CASE v.t = "arr" ->
         /\ HasArr(k)
         /\ \A j \in 1..Len(v.e) :
              LET kk == KnownIndex(k.arr.kn, j - 1) IN
              IF kk = None THEN UnkAdmits(k.arr.un, v.e[j]) ELSE InKind(v.e[j], kk)
         \* a known index beyond the end is absent: its kind must admit `undefined`
         /\ \A j \in 1..Len(k.arr.kn) :
              k.arr.kn[j][1] >= Len(v.e) => AdmitsUndefined(k.arr.kn[j][2])
    [] v.t = "obj" ->
         /\ HasObj(k)
         /\ \A f \in DOMAIN v.m :
              IF f \in DOMAIN k.obj.kn THEN InKind(v.m[f], k.obj.kn[f])
                                       ELSE UnkAdmits(k.obj.un, v.m[f])
         /\ \A f \in (DOMAIN k.obj.kn) \ (DOMAIN v.m) : AdmitsUndefined(k.obj.kn[f])
    [] OTHER -> PrimTag(v) \in KPrims(k)

\* Kind::default_value (src/compiler/value/kind.rs): the value stored in `ok` when the right-hand
\* side of `ok, err = e` fails - the zero value of e's type when that type is exactly one kind.
OnlyPrim(k, p) == KPrims(k) = {p} /\ ~HasArr(k) /\ ~HasObj(k)
DefaultOfKind(k) ==
  CASE OnlyPrim(k, "bytes")     -> Str("")
    [] OnlyPrim(k, "integer")   -> IntV(0)
    [] OnlyPrim(k, "float")     -> [t |-> "float", b |-> <<0, 0, 0, 0>>]
    [] OnlyPrim(k, "boolean")   -> Bool(FALSE)
    [] OnlyPrim(k, "timestamp") -> [t |-> "ts", s |-> "1970-01-01T00:00:00.000000000Z"]
    [] OnlyPrim(k, "regex")     -> [t |-> "regex", s |-> ""]
    [] KPrims(k) = {} /\ HasArr(k) /\ ~HasObj(k) -> EmptyArr
    [] KPrims(k) = {} /\ ~HasArr(k) /\ HasObj(k) -> EmptyObj
    [] OTHER -> Null

\* absence (a missing field / an unset variable) is the value `undefined`
InKindOrAbsent(v, k) == IF IsNone(v) THEN AdmitsUndefined(k) ELSE InKind(v, k)

=============================================================================
