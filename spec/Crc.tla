-------------------------------- MODULE Crc --------------------------------
(***************************************************************************)
(* The parametrised CRC algorithm ("Rocksoft model": width, poly, init,    *)
(* refin, refout, xorout) on sequences of bits, and the parameter table of *)
(* the published CRC catalogue (reveng; transcribed from the crc-catalog   *)
(* data the repository depends on, `check` = the published CRC of the      *)
(* ASCII string "123456789").  GenCrc.tla lets TLC verify that this model  *)
(* reproduces every published check value before it is used as the         *)
(* reference for the `crc` function (C27).                                  *)
(***************************************************************************)
EXTENDS Integers, Sequences, TLC

NibbleBits(n) == <<(n \div 8) % 2, (n \div 4) % 2, (n \div 2) % 2, n % 2>>
RECURSIVE HexToBits(_)
HexToBits(h) == IF h = <<>> THEN <<>> ELSE NibbleBits(Head(h)) \o HexToBits(Tail(h))
\* the low `w` bits of a hex literal, most significant first
RECURSIVE Zeros(_)
Zeros(n) == IF n <= 0 THEN <<>> ELSE <<0>> \o Zeros(n - 1)
LowBits(h, w) == LET b == HexToBits(h) IN IF Len(b) >= w THEN SubSeq(b, Len(b) - w + 1, Len(b)) ELSE Zeros(w - Len(b)) \o b
RECURSIVE Rev(_)
Rev(s) == IF s = <<>> THEN <<>> ELSE Rev(Tail(s)) \o <<Head(s)>>
\* (written with recursion and concatenation rather than function constructors, which TLC evaluates lazily and chains up bit after bit)
RECURSIVE Xor(_, _)
Xor(a, b) == IF a = <<>> THEN <<>> ELSE <<(Head(a) + Head(b)) % 2>> \o Xor(Tail(a), Tail(b))
ByteBits(c) == <<(c \div 128) % 2, (c \div 64) % 2, (c \div 32) % 2, (c \div 16) % 2, (c \div 8) % 2, (c \div 4) % 2, (c \div 2) % 2, c % 2>>
\* one message bit into the register (direct, non-augmented form)
StepBit(reg, poly, b) == LET top == (reg[1] + b) % 2
                             sh == Tail(reg) \o <<0>>
                         IN IF top = 1 THEN Xor(sh, poly) ELSE sh
RECURSIVE MsgBits(_, _)
MsgBits(msg, refin) == IF msg = <<>> THEN <<>> ELSE (IF refin THEN Rev(ByteBits(Head(msg))) ELSE ByteBits(Head(msg))) \o MsgBits(Tail(msg), refin)
\* The register is advanced one message bit per TLC step by CrcTrace.tla (a behaviour, not a nested expression); the final
\* register gives the CRC as `P.width` bits, most significant first
InitReg(P) == LowBits(P.init, P.width)
Poly(P) == LowBits(P.poly, P.width)
Finish(P, reg) == Xor(IF P.refout THEN Rev(reg) ELSE reg, LowBits(P.xorout, P.width))
\* bits (most significant first) -> big-endian bytes, for the decimal rendering by long division
RECURSIVE BitsToBytes(_)
BitsToBytes(b) == IF b = <<>> THEN <<>>
                  ELSE <<b[1] * 128 + b[2] * 64 + b[3] * 32 + b[4] * 16 + b[5] * 8 + b[6] * 4 + b[7] * 2 + b[8]>> \o BitsToBytes(SubSeq(b, 9, Len(b)))
PadTo8(b) == LET r == Len(b) % 8 IN IF r = 0 THEN b ELSE Zeros(8 - r) \o b
CheckInput == <<49, 50, 51, 52, 53, 54, 55, 56, 57>>
\* decimal digits (code points) of a big-endian byte sequence, by repeated long division
RECURSIVE DivTen(_, _)
DivTen(bytes, rem) == IF bytes = <<>> THEN [q |-> <<>>, r |-> rem]
                      ELSE LET cur == rem * 256 + Head(bytes)  rest == DivTen(Tail(bytes), cur % 10)
                           IN [q |-> <<cur \div 10>> \o rest.q, r |-> rest.r]
AllZeroBytes(bytes) == \A j \in 1..Len(bytes) : bytes[j] = 0
RECURSIVE DecDigits(_)
DecDigits(bytes) == IF AllZeroBytes(bytes) THEN <<>> ELSE LET d == DivTen(bytes, 0) IN DecDigits(d.q) \o <<48 + d.r>>
Decimal(bits) == LET d == DecDigits(BitsToBytes(PadTo8(bits))) IN IF d = <<>> THEN <<48>> ELSE d

Catalogue == {
  [name |-> "CRC_3_GSM", width |-> 3, poly |-> <<3>>, init |-> <<0>>, refin |-> FALSE, refout |-> FALSE, xorout |-> <<7>>, check |-> <<4>>],
  [name |-> "CRC_3_ROHC", width |-> 3, poly |-> <<3>>, init |-> <<7>>, refin |-> TRUE, refout |-> TRUE, xorout |-> <<0>>, check |-> <<6>>],
  [name |-> "CRC_4_G_704", width |-> 4, poly |-> <<3>>, init |-> <<0>>, refin |-> TRUE, refout |-> TRUE, xorout |-> <<0>>, check |-> <<7>>],
  [name |-> "CRC_4_INTERLAKEN", width |-> 4, poly |-> <<3>>, init |-> <<15>>, refin |-> FALSE, refout |-> FALSE, xorout |-> <<15>>, check |-> <<11>>],
  [name |-> "CRC_5_EPC_C1G2", width |-> 5, poly |-> <<0, 9>>, init |-> <<0, 9>>, refin |-> FALSE, refout |-> FALSE, xorout |-> <<0, 0>>, check |-> <<0, 0>>],
  [name |-> "CRC_5_G_704", width |-> 5, poly |-> <<1, 5>>, init |-> <<0, 0>>, refin |-> TRUE, refout |-> TRUE, xorout |-> <<0, 0>>, check |-> <<0, 7>>],
  [name |-> "CRC_5_USB", width |-> 5, poly |-> <<0, 5>>, init |-> <<1, 15>>, refin |-> TRUE, refout |-> TRUE, xorout |-> <<1, 15>>, check |-> <<1, 9>>],
  [name |-> "CRC_6_CDMA2000_A", width |-> 6, poly |-> <<2, 7>>, init |-> <<3, 15>>, refin |-> FALSE, refout |-> FALSE, xorout |-> <<0, 0>>, check |-> <<0, 13>>],
  [name |-> "CRC_6_CDMA2000_B", width |-> 6, poly |-> <<0, 7>>, init |-> <<3, 15>>, refin |-> FALSE, refout |-> FALSE, xorout |-> <<0, 0>>, check |-> <<3, 11>>],
  [name |-> "CRC_6_DARC", width |-> 6, poly |-> <<1, 9>>, init |-> <<0, 0>>, refin |-> TRUE, refout |-> TRUE, xorout |-> <<0, 0>>, check |-> <<2, 6>>],
  [name |-> "CRC_6_G_704", width |-> 6, poly |-> <<0, 3>>, init |-> <<0, 0>>, refin |-> TRUE, refout |-> TRUE, xorout |-> <<0, 0>>, check |-> <<0, 6>>],
  [name |-> "CRC_6_GSM", width |-> 6, poly |-> <<2, 15>>, init |-> <<0, 0>>, refin |-> FALSE, refout |-> FALSE, xorout |-> <<3, 15>>, check |-> <<1, 3>>],
  [name |-> "CRC_7_MMC", width |-> 7, poly |-> <<0, 9>>, init |-> <<0, 0>>, refin |-> FALSE, refout |-> FALSE, xorout |-> <<0, 0>>, check |-> <<7, 5>>],
  [name |-> "CRC_7_ROHC", width |-> 7, poly |-> <<4, 15>>, init |-> <<7, 15>>, refin |-> TRUE, refout |-> TRUE, xorout |-> <<0, 0>>, check |-> <<5, 3>>],
  [name |-> "CRC_7_UMTS", width |-> 7, poly |-> <<4, 5>>, init |-> <<0, 0>>, refin |-> FALSE, refout |-> FALSE, xorout |-> <<0, 0>>, check |-> <<6, 1>>],
  [name |-> "CRC_8_AUTOSAR", width |-> 8, poly |-> <<2, 15>>, init |-> <<15, 15>>, refin |-> FALSE, refout |-> FALSE, xorout |-> <<15, 15>>, check |-> <<13, 15>>],
  [name |-> "CRC_8_BLUETOOTH", width |-> 8, poly |-> <<10, 7>>, init |-> <<0, 0>>, refin |-> TRUE, refout |-> TRUE, xorout |-> <<0, 0>>, check |-> <<2, 6>>],
  [name |-> "CRC_8_CDMA2000", width |-> 8, poly |-> <<9, 11>>, init |-> <<15, 15>>, refin |-> FALSE, refout |-> FALSE, xorout |-> <<0, 0>>, check |-> <<13, 10>>],
  [name |-> "CRC_8_DARC", width |-> 8, poly |-> <<3, 9>>, init |-> <<0, 0>>, refin |-> TRUE, refout |-> TRUE, xorout |-> <<0, 0>>, check |-> <<1, 5>>],
  [name |-> "CRC_8_DVB_S2", width |-> 8, poly |-> <<13, 5>>, init |-> <<0, 0>>, refin |-> FALSE, refout |-> FALSE, xorout |-> <<0, 0>>, check |-> <<11, 12>>],
  [name |-> "CRC_8_GSM_A", width |-> 8, poly |-> <<1, 13>>, init |-> <<0, 0>>, refin |-> FALSE, refout |-> FALSE, xorout |-> <<0, 0>>, check |-> <<3, 7>>],
  [name |-> "CRC_8_GSM_B", width |-> 8, poly |-> <<4, 9>>, init |-> <<0, 0>>, refin |-> FALSE, refout |-> FALSE, xorout |-> <<15, 15>>, check |-> <<9, 4>>],
  [name |-> "CRC_8_HITAG", width |-> 8, poly |-> <<1, 13>>, init |-> <<15, 15>>, refin |-> FALSE, refout |-> FALSE, xorout |-> <<0, 0>>, check |-> <<11, 4>>],
  [name |-> "CRC_8_I_432_1", width |-> 8, poly |-> <<0, 7>>, init |-> <<0, 0>>, refin |-> FALSE, refout |-> FALSE, xorout |-> <<5, 5>>, check |-> <<10, 1>>],
  [name |-> "CRC_8_I_CODE", width |-> 8, poly |-> <<1, 13>>, init |-> <<15, 13>>, refin |-> FALSE, refout |-> FALSE, xorout |-> <<0, 0>>, check |-> <<7, 14>>],
  [name |-> "CRC_8_LTE", width |-> 8, poly |-> <<9, 11>>, init |-> <<0, 0>>, refin |-> FALSE, refout |-> FALSE, xorout |-> <<0, 0>>, check |-> <<14, 10>>],
  [name |-> "CRC_8_MAXIM_DOW", width |-> 8, poly |-> <<3, 1>>, init |-> <<0, 0>>, refin |-> TRUE, refout |-> TRUE, xorout |-> <<0, 0>>, check |-> <<10, 1>>],
  [name |-> "CRC_8_MIFARE_MAD", width |-> 8, poly |-> <<1, 13>>, init |-> <<12, 7>>, refin |-> FALSE, refout |-> FALSE, xorout |-> <<0, 0>>, check |-> <<9, 9>>],
  [name |-> "CRC_8_NRSC_5", width |-> 8, poly |-> <<3, 1>>, init |-> <<15, 15>>, refin |-> FALSE, refout |-> FALSE, xorout |-> <<0, 0>>, check |-> <<15, 7>>],
  [name |-> "CRC_8_OPENSAFETY", width |-> 8, poly |-> <<2, 15>>, init |-> <<0, 0>>, refin |-> FALSE, refout |-> FALSE, xorout |-> <<0, 0>>, check |-> <<3, 14>>],
  [name |-> "CRC_8_ROHC", width |-> 8, poly |-> <<0, 7>>, init |-> <<15, 15>>, refin |-> TRUE, refout |-> TRUE, xorout |-> <<0, 0>>, check |-> <<13, 0>>],
  [name |-> "CRC_8_SAE_J1850", width |-> 8, poly |-> <<1, 13>>, init |-> <<15, 15>>, refin |-> FALSE, refout |-> FALSE, xorout |-> <<15, 15>>, check |-> <<4, 11>>],
  [name |-> "CRC_8_SMBUS", width |-> 8, poly |-> <<0, 7>>, init |-> <<0, 0>>, refin |-> FALSE, refout |-> FALSE, xorout |-> <<0, 0>>, check |-> <<15, 4>>],
  [name |-> "CRC_8_TECH_3250", width |-> 8, poly |-> <<1, 13>>, init |-> <<15, 15>>, refin |-> TRUE, refout |-> TRUE, xorout |-> <<0, 0>>, check |-> <<9, 7>>],
  [name |-> "CRC_8_WCDMA", width |-> 8, poly |-> <<9, 11>>, init |-> <<0, 0>>, refin |-> TRUE, refout |-> TRUE, xorout |-> <<0, 0>>, check |-> <<2, 5>>],
  [name |-> "CRC_10_ATM", width |-> 10, poly |-> <<2, 3, 3>>, init |-> <<0, 0, 0>>, refin |-> FALSE, refout |-> FALSE, xorout |-> <<0, 0, 0>>, check |-> <<1, 9, 9>>],
  [name |-> "CRC_10_CDMA2000", width |-> 10, poly |-> <<3, 13, 9>>, init |-> <<3, 15, 15>>, refin |-> FALSE, refout |-> FALSE, xorout |-> <<0, 0, 0>>, check |-> <<2, 3, 3>>],
  [name |-> "CRC_10_GSM", width |-> 10, poly |-> <<1, 7, 5>>, init |-> <<0, 0, 0>>, refin |-> FALSE, refout |-> FALSE, xorout |-> <<3, 15, 15>>, check |-> <<1, 2, 10>>],
  [name |-> "CRC_11_FLEXRAY", width |-> 11, poly |-> <<3, 8, 5>>, init |-> <<0, 1, 10>>, refin |-> FALSE, refout |-> FALSE, xorout |-> <<0, 0, 0>>, check |-> <<5, 10, 3>>],
  [name |-> "CRC_11_UMTS", width |-> 11, poly |-> <<3, 0, 7>>, init |-> <<0, 0, 0>>, refin |-> FALSE, refout |-> FALSE, xorout |-> <<0, 0, 0>>, check |-> <<0, 6, 1>>],
  [name |-> "CRC_12_CDMA2000", width |-> 12, poly |-> <<15, 1, 3>>, init |-> <<15, 15, 15>>, refin |-> FALSE, refout |-> FALSE, xorout |-> <<0, 0, 0>>, check |-> <<13, 4, 13>>],
  [name |-> "CRC_12_DECT", width |-> 12, poly |-> <<8, 0, 15>>, init |-> <<0, 0, 0>>, refin |-> FALSE, refout |-> FALSE, xorout |-> <<0, 0, 0>>, check |-> <<15, 5, 11>>],
  [name |-> "CRC_12_GSM", width |-> 12, poly |-> <<13, 3, 1>>, init |-> <<0, 0, 0>>, refin |-> FALSE, refout |-> FALSE, xorout |-> <<15, 15, 15>>, check |-> <<11, 3, 4>>],
  [name |-> "CRC_12_UMTS", width |-> 12, poly |-> <<8, 0, 15>>, init |-> <<0, 0, 0>>, refin |-> FALSE, refout |-> TRUE, xorout |-> <<0, 0, 0>>, check |-> <<13, 10, 15>>],
  [name |-> "CRC_13_BBC", width |-> 13, poly |-> <<1, 12, 15, 5>>, init |-> <<0, 0, 0, 0>>, refin |-> FALSE, refout |-> FALSE, xorout |-> <<0, 0, 0, 0>>, check |-> <<0, 4, 15, 10>>],
  [name |-> "CRC_14_DARC", width |-> 14, poly |-> <<0, 8, 0, 5>>, init |-> <<0, 0, 0, 0>>, refin |-> TRUE, refout |-> TRUE, xorout |-> <<0, 0, 0, 0>>, check |-> <<0, 8, 2, 13>>],
  [name |-> "CRC_14_GSM", width |-> 14, poly |-> <<2, 0, 2, 13>>, init |-> <<0, 0, 0, 0>>, refin |-> FALSE, refout |-> FALSE, xorout |-> <<3, 15, 15, 15>>, check |-> <<3, 0, 10, 14>>],
  [name |-> "CRC_15_CAN", width |-> 15, poly |-> <<4, 5, 9, 9>>, init |-> <<0, 0, 0, 0>>, refin |-> FALSE, refout |-> FALSE, xorout |-> <<0, 0, 0, 0>>, check |-> <<0, 5, 9, 14>>],
  [name |-> "CRC_15_MPT1327", width |-> 15, poly |-> <<6, 8, 1, 5>>, init |-> <<0, 0, 0, 0>>, refin |-> FALSE, refout |-> FALSE, xorout |-> <<0, 0, 0, 1>>, check |-> <<2, 5, 6, 6>>],
  [name |-> "CRC_16_ARC", width |-> 16, poly |-> <<8, 0, 0, 5>>, init |-> <<0, 0, 0, 0>>, refin |-> TRUE, refout |-> TRUE, xorout |-> <<0, 0, 0, 0>>, check |-> <<11, 11, 3, 13>>],
  [name |-> "CRC_16_CDMA2000", width |-> 16, poly |-> <<12, 8, 6, 7>>, init |-> <<15, 15, 15, 15>>, refin |-> FALSE, refout |-> FALSE, xorout |-> <<0, 0, 0, 0>>, check |-> <<4, 12, 0, 6>>],
  [name |-> "CRC_16_CMS", width |-> 16, poly |-> <<8, 0, 0, 5>>, init |-> <<15, 15, 15, 15>>, refin |-> FALSE, refout |-> FALSE, xorout |-> <<0, 0, 0, 0>>, check |-> <<10, 14, 14, 7>>],
  [name |-> "CRC_16_DDS_110", width |-> 16, poly |-> <<8, 0, 0, 5>>, init |-> <<8, 0, 0, 13>>, refin |-> FALSE, refout |-> FALSE, xorout |-> <<0, 0, 0, 0>>, check |-> <<9, 14, 12, 15>>],
  [name |-> "CRC_16_DECT_R", width |-> 16, poly |-> <<0, 5, 8, 9>>, init |-> <<0, 0, 0, 0>>, refin |-> FALSE, refout |-> FALSE, xorout |-> <<0, 0, 0, 1>>, check |-> <<0, 0, 7, 14>>],
  [name |-> "CRC_16_DECT_X", width |-> 16, poly |-> <<0, 5, 8, 9>>, init |-> <<0, 0, 0, 0>>, refin |-> FALSE, refout |-> FALSE, xorout |-> <<0, 0, 0, 0>>, check |-> <<0, 0, 7, 15>>],
  [name |-> "CRC_16_DNP", width |-> 16, poly |-> <<3, 13, 6, 5>>, init |-> <<0, 0, 0, 0>>, refin |-> TRUE, refout |-> TRUE, xorout |-> <<15, 15, 15, 15>>, check |-> <<14, 10, 8, 2>>],
  [name |-> "CRC_16_EN_13757", width |-> 16, poly |-> <<3, 13, 6, 5>>, init |-> <<0, 0, 0, 0>>, refin |-> FALSE, refout |-> FALSE, xorout |-> <<15, 15, 15, 15>>, check |-> <<12, 2, 11, 7>>],
  [name |-> "CRC_16_GENIBUS", width |-> 16, poly |-> <<1, 0, 2, 1>>, init |-> <<15, 15, 15, 15>>, refin |-> FALSE, refout |-> FALSE, xorout |-> <<15, 15, 15, 15>>, check |-> <<13, 6, 4, 14>>],
  [name |-> "CRC_16_GSM", width |-> 16, poly |-> <<1, 0, 2, 1>>, init |-> <<0, 0, 0, 0>>, refin |-> FALSE, refout |-> FALSE, xorout |-> <<15, 15, 15, 15>>, check |-> <<12, 14, 3, 12>>],
  [name |-> "CRC_16_IBM_3740", width |-> 16, poly |-> <<1, 0, 2, 1>>, init |-> <<15, 15, 15, 15>>, refin |-> FALSE, refout |-> FALSE, xorout |-> <<0, 0, 0, 0>>, check |-> <<2, 9, 11, 1>>],
  [name |-> "CRC_16_IBM_SDLC", width |-> 16, poly |-> <<1, 0, 2, 1>>, init |-> <<15, 15, 15, 15>>, refin |-> TRUE, refout |-> TRUE, xorout |-> <<15, 15, 15, 15>>, check |-> <<9, 0, 6, 14>>],
  [name |-> "CRC_16_ISO_IEC_14443_3_A", width |-> 16, poly |-> <<1, 0, 2, 1>>, init |-> <<12, 6, 12, 6>>, refin |-> TRUE, refout |-> TRUE, xorout |-> <<0, 0, 0, 0>>, check |-> <<11, 15, 0, 5>>],
  [name |-> "CRC_16_KERMIT", width |-> 16, poly |-> <<1, 0, 2, 1>>, init |-> <<0, 0, 0, 0>>, refin |-> TRUE, refout |-> TRUE, xorout |-> <<0, 0, 0, 0>>, check |-> <<2, 1, 8, 9>>],
  [name |-> "CRC_16_LJ1200", width |-> 16, poly |-> <<6, 15, 6, 3>>, init |-> <<0, 0, 0, 0>>, refin |-> FALSE, refout |-> FALSE, xorout |-> <<0, 0, 0, 0>>, check |-> <<11, 13, 15, 4>>],
  [name |-> "CRC_16_M17", width |-> 16, poly |-> <<5, 9, 3, 5>>, init |-> <<15, 15, 15, 15>>, refin |-> FALSE, refout |-> FALSE, xorout |-> <<0, 0, 0, 0>>, check |-> <<7, 7, 2, 11>>],
  [name |-> "CRC_16_MAXIM_DOW", width |-> 16, poly |-> <<8, 0, 0, 5>>, init |-> <<0, 0, 0, 0>>, refin |-> TRUE, refout |-> TRUE, xorout |-> <<15, 15, 15, 15>>, check |-> <<4, 4, 12, 2>>],
  [name |-> "CRC_16_MCRF4XX", width |-> 16, poly |-> <<1, 0, 2, 1>>, init |-> <<15, 15, 15, 15>>, refin |-> TRUE, refout |-> TRUE, xorout |-> <<0, 0, 0, 0>>, check |-> <<6, 15, 9, 1>>],
  [name |-> "CRC_16_MODBUS", width |-> 16, poly |-> <<8, 0, 0, 5>>, init |-> <<15, 15, 15, 15>>, refin |-> TRUE, refout |-> TRUE, xorout |-> <<0, 0, 0, 0>>, check |-> <<4, 11, 3, 7>>],
  [name |-> "CRC_16_NRSC_5", width |-> 16, poly |-> <<0, 8, 0, 11>>, init |-> <<15, 15, 15, 15>>, refin |-> TRUE, refout |-> TRUE, xorout |-> <<0, 0, 0, 0>>, check |-> <<10, 0, 6, 6>>],
  [name |-> "CRC_16_OPENSAFETY_A", width |-> 16, poly |-> <<5, 9, 3, 5>>, init |-> <<0, 0, 0, 0>>, refin |-> FALSE, refout |-> FALSE, xorout |-> <<0, 0, 0, 0>>, check |-> <<5, 13, 3, 8>>],
  [name |-> "CRC_16_OPENSAFETY_B", width |-> 16, poly |-> <<7, 5, 5, 11>>, init |-> <<0, 0, 0, 0>>, refin |-> FALSE, refout |-> FALSE, xorout |-> <<0, 0, 0, 0>>, check |-> <<2, 0, 15, 14>>],
  [name |-> "CRC_16_PROFIBUS", width |-> 16, poly |-> <<1, 13, 12, 15>>, init |-> <<15, 15, 15, 15>>, refin |-> FALSE, refout |-> FALSE, xorout |-> <<15, 15, 15, 15>>, check |-> <<10, 8, 1, 9>>],
  [name |-> "CRC_16_RIELLO", width |-> 16, poly |-> <<1, 0, 2, 1>>, init |-> <<11, 2, 10, 10>>, refin |-> TRUE, refout |-> TRUE, xorout |-> <<0, 0, 0, 0>>, check |-> <<6, 3, 13, 0>>],
  [name |-> "CRC_16_SPI_FUJITSU", width |-> 16, poly |-> <<1, 0, 2, 1>>, init |-> <<1, 13, 0, 15>>, refin |-> FALSE, refout |-> FALSE, xorout |-> <<0, 0, 0, 0>>, check |-> <<14, 5, 12, 12>>],
  [name |-> "CRC_16_T10_DIF", width |-> 16, poly |-> <<8, 11, 11, 7>>, init |-> <<0, 0, 0, 0>>, refin |-> FALSE, refout |-> FALSE, xorout |-> <<0, 0, 0, 0>>, check |-> <<13, 0, 13, 11>>],
  [name |-> "CRC_16_TELEDISK", width |-> 16, poly |-> <<10, 0, 9, 7>>, init |-> <<0, 0, 0, 0>>, refin |-> FALSE, refout |-> FALSE, xorout |-> <<0, 0, 0, 0>>, check |-> <<0, 15, 11, 3>>],
  [name |-> "CRC_16_TMS37157", width |-> 16, poly |-> <<1, 0, 2, 1>>, init |-> <<8, 9, 14, 12>>, refin |-> TRUE, refout |-> TRUE, xorout |-> <<0, 0, 0, 0>>, check |-> <<2, 6, 11, 1>>],
  [name |-> "CRC_16_UMTS", width |-> 16, poly |-> <<8, 0, 0, 5>>, init |-> <<0, 0, 0, 0>>, refin |-> FALSE, refout |-> FALSE, xorout |-> <<0, 0, 0, 0>>, check |-> <<15, 14, 14, 8>>],
  [name |-> "CRC_16_USB", width |-> 16, poly |-> <<8, 0, 0, 5>>, init |-> <<15, 15, 15, 15>>, refin |-> TRUE, refout |-> TRUE, xorout |-> <<15, 15, 15, 15>>, check |-> <<11, 4, 12, 8>>],
  [name |-> "CRC_16_XMODEM", width |-> 16, poly |-> <<1, 0, 2, 1>>, init |-> <<0, 0, 0, 0>>, refin |-> FALSE, refout |-> FALSE, xorout |-> <<0, 0, 0, 0>>, check |-> <<3, 1, 12, 3>>],
  [name |-> "CRC_17_CAN_FD", width |-> 17, poly |-> <<1, 6, 8, 5, 11>>, init |-> <<0, 0, 0, 0, 0>>, refin |-> FALSE, refout |-> FALSE, xorout |-> <<0, 0, 0, 0, 0>>, check |-> <<0, 4, 15, 0, 3>>],
  [name |-> "CRC_21_CAN_FD", width |-> 21, poly |-> <<1, 0, 2, 8, 9, 9>>, init |-> <<0, 0, 0, 0, 0, 0>>, refin |-> FALSE, refout |-> FALSE, xorout |-> <<0, 0, 0, 0, 0, 0>>, check |-> <<0, 14, 13, 8, 4, 1>>],
  [name |-> "CRC_24_BLE", width |-> 24, poly |-> <<0, 0, 0, 6, 5, 11>>, init |-> <<5, 5, 5, 5, 5, 5>>, refin |-> TRUE, refout |-> TRUE, xorout |-> <<0, 0, 0, 0, 0, 0>>, check |-> <<12, 2, 5, 10, 5, 6>>],
  [name |-> "CRC_24_FLEXRAY_A", width |-> 24, poly |-> <<5, 13, 6, 13, 12, 11>>, init |-> <<15, 14, 13, 12, 11, 10>>, refin |-> FALSE, refout |-> FALSE, xorout |-> <<0, 0, 0, 0, 0, 0>>, check |-> <<7, 9, 7, 9, 11, 13>>],
  [name |-> "CRC_24_FLEXRAY_B", width |-> 24, poly |-> <<5, 13, 6, 13, 12, 11>>, init |-> <<10, 11, 12, 13, 14, 15>>, refin |-> FALSE, refout |-> FALSE, xorout |-> <<0, 0, 0, 0, 0, 0>>, check |-> <<1, 15, 2, 3, 11, 8>>],
  [name |-> "CRC_24_INTERLAKEN", width |-> 24, poly |-> <<3, 2, 8, 11, 6, 3>>, init |-> <<15, 15, 15, 15, 15, 15>>, refin |-> FALSE, refout |-> FALSE, xorout |-> <<15, 15, 15, 15, 15, 15>>, check |-> <<11, 4, 15, 3, 14, 6>>],
  [name |-> "CRC_24_LTE_A", width |-> 24, poly |-> <<8, 6, 4, 12, 15, 11>>, init |-> <<0, 0, 0, 0, 0, 0>>, refin |-> FALSE, refout |-> FALSE, xorout |-> <<0, 0, 0, 0, 0, 0>>, check |-> <<12, 13, 14, 7, 0, 3>>],
  [name |-> "CRC_24_LTE_B", width |-> 24, poly |-> <<8, 0, 0, 0, 6, 3>>, init |-> <<0, 0, 0, 0, 0, 0>>, refin |-> FALSE, refout |-> FALSE, xorout |-> <<0, 0, 0, 0, 0, 0>>, check |-> <<2, 3, 14, 15, 5, 2>>],
  [name |-> "CRC_24_OPENPGP", width |-> 24, poly |-> <<8, 6, 4, 12, 15, 11>>, init |-> <<11, 7, 0, 4, 12, 14>>, refin |-> FALSE, refout |-> FALSE, xorout |-> <<0, 0, 0, 0, 0, 0>>, check |-> <<2, 1, 12, 15, 0, 2>>],
  [name |-> "CRC_24_OS_9", width |-> 24, poly |-> <<8, 0, 0, 0, 6, 3>>, init |-> <<15, 15, 15, 15, 15, 15>>, refin |-> FALSE, refout |-> FALSE, xorout |-> <<15, 15, 15, 15, 15, 15>>, check |-> <<2, 0, 0, 15, 10, 5>>],
  [name |-> "CRC_30_CDMA", width |-> 30, poly |-> <<2, 0, 3, 0, 11, 9, 12, 7>>, init |-> <<3, 15, 15, 15, 15, 15, 15, 15>>, refin |-> FALSE, refout |-> FALSE, xorout |-> <<3, 15, 15, 15, 15, 15, 15, 15>>, check |-> <<0, 4, 12, 3, 4, 10, 11, 15>>],
  [name |-> "CRC_31_PHILIPS", width |-> 31, poly |-> <<0, 4, 12, 1, 1, 13, 11, 7>>, init |-> <<7, 15, 15, 15, 15, 15, 15, 15>>, refin |-> FALSE, refout |-> FALSE, xorout |-> <<7, 15, 15, 15, 15, 15, 15, 15>>, check |-> <<0, 12, 14, 9, 14, 4, 6, 12>>],
  [name |-> "CRC_32_AIXM", width |-> 32, poly |-> <<8, 1, 4, 1, 4, 1, 10, 11>>, init |-> <<0, 0, 0, 0, 0, 0, 0, 0>>, refin |-> FALSE, refout |-> FALSE, xorout |-> <<0, 0, 0, 0, 0, 0, 0, 0>>, check |-> <<3, 0, 1, 0, 11, 15, 7, 15>>],
  [name |-> "CRC_32_AUTOSAR", width |-> 32, poly |-> <<15, 4, 10, 12, 15, 11, 1, 3>>, init |-> <<15, 15, 15, 15, 15, 15, 15, 15>>, refin |-> TRUE, refout |-> TRUE, xorout |-> <<15, 15, 15, 15, 15, 15, 15, 15>>, check |-> <<1, 6, 9, 7, 13, 0, 6, 10>>],
  [name |-> "CRC_32_BASE91_D", width |-> 32, poly |-> <<10, 8, 3, 3, 9, 8, 2, 11>>, init |-> <<15, 15, 15, 15, 15, 15, 15, 15>>, refin |-> TRUE, refout |-> TRUE, xorout |-> <<15, 15, 15, 15, 15, 15, 15, 15>>, check |-> <<8, 7, 3, 1, 5, 5, 7, 6>>],
  [name |-> "CRC_32_BZIP2", width |-> 32, poly |-> <<0, 4, 12, 1, 1, 13, 11, 7>>, init |-> <<15, 15, 15, 15, 15, 15, 15, 15>>, refin |-> FALSE, refout |-> FALSE, xorout |-> <<15, 15, 15, 15, 15, 15, 15, 15>>, check |-> <<15, 12, 8, 9, 1, 9, 1, 8>>],
  [name |-> "CRC_32_CD_ROM_EDC", width |-> 32, poly |-> <<8, 0, 0, 1, 8, 0, 1, 11>>, init |-> <<0, 0, 0, 0, 0, 0, 0, 0>>, refin |-> TRUE, refout |-> TRUE, xorout |-> <<0, 0, 0, 0, 0, 0, 0, 0>>, check |-> <<6, 14, 12, 2, 14, 13, 12, 4>>],
  [name |-> "CRC_32_CKSUM", width |-> 32, poly |-> <<0, 4, 12, 1, 1, 13, 11, 7>>, init |-> <<0, 0, 0, 0, 0, 0, 0, 0>>, refin |-> FALSE, refout |-> FALSE, xorout |-> <<15, 15, 15, 15, 15, 15, 15, 15>>, check |-> <<7, 6, 5, 14, 7, 6, 8, 0>>],
  [name |-> "CRC_32_ISCSI", width |-> 32, poly |-> <<1, 14, 13, 12, 6, 15, 4, 1>>, init |-> <<15, 15, 15, 15, 15, 15, 15, 15>>, refin |-> TRUE, refout |-> TRUE, xorout |-> <<15, 15, 15, 15, 15, 15, 15, 15>>, check |-> <<14, 3, 0, 6, 9, 2, 8, 3>>],
  [name |-> "CRC_32_ISO_HDLC", width |-> 32, poly |-> <<0, 4, 12, 1, 1, 13, 11, 7>>, init |-> <<15, 15, 15, 15, 15, 15, 15, 15>>, refin |-> TRUE, refout |-> TRUE, xorout |-> <<15, 15, 15, 15, 15, 15, 15, 15>>, check |-> <<12, 11, 15, 4, 3, 9, 2, 6>>],
  [name |-> "CRC_32_JAMCRC", width |-> 32, poly |-> <<0, 4, 12, 1, 1, 13, 11, 7>>, init |-> <<15, 15, 15, 15, 15, 15, 15, 15>>, refin |-> TRUE, refout |-> TRUE, xorout |-> <<0, 0, 0, 0, 0, 0, 0, 0>>, check |-> <<3, 4, 0, 11, 12, 6, 13, 9>>],
  [name |-> "CRC_32_MEF", width |-> 32, poly |-> <<7, 4, 1, 11, 8, 12, 13, 7>>, init |-> <<15, 15, 15, 15, 15, 15, 15, 15>>, refin |-> TRUE, refout |-> TRUE, xorout |-> <<0, 0, 0, 0, 0, 0, 0, 0>>, check |-> <<13, 2, 12, 2, 2, 15, 5, 1>>],
  [name |-> "CRC_32_MPEG_2", width |-> 32, poly |-> <<0, 4, 12, 1, 1, 13, 11, 7>>, init |-> <<15, 15, 15, 15, 15, 15, 15, 15>>, refin |-> FALSE, refout |-> FALSE, xorout |-> <<0, 0, 0, 0, 0, 0, 0, 0>>, check |-> <<0, 3, 7, 6, 14, 6, 14, 7>>],
  [name |-> "CRC_32_XFER", width |-> 32, poly |-> <<0, 0, 0, 0, 0, 0, 10, 15>>, init |-> <<0, 0, 0, 0, 0, 0, 0, 0>>, refin |-> FALSE, refout |-> FALSE, xorout |-> <<0, 0, 0, 0, 0, 0, 0, 0>>, check |-> <<11, 13, 0, 11, 14, 3, 3, 8>>],
  [name |-> "CRC_40_GSM", width |-> 40, poly |-> <<0, 0, 0, 4, 8, 2, 0, 0, 0, 9>>, init |-> <<0, 0, 0, 0, 0, 0, 0, 0, 0, 0>>, refin |-> FALSE, refout |-> FALSE, xorout |-> <<15, 15, 15, 15, 15, 15, 15, 15, 15, 15>>, check |-> <<13, 4, 1, 6, 4, 15, 12, 6, 4, 6>>],
  [name |-> "CRC_64_ECMA_182", width |-> 64, poly |-> <<4, 2, 15, 0, 14, 1, 14, 11, 10, 9, 14, 10, 3, 6, 9, 3>>, init |-> <<0, 0, 0, 0, 0, 0, 0, 0, 0, 0, 0, 0, 0, 0, 0, 0>>, refin |-> FALSE, refout |-> FALSE, xorout |-> <<0, 0, 0, 0, 0, 0, 0, 0, 0, 0, 0, 0, 0, 0, 0, 0>>, check |-> <<6, 12, 4, 0, 13, 15, 5, 15, 0, 11, 4, 9, 7, 3, 4, 7>>],
  [name |-> "CRC_64_GO_ISO", width |-> 64, poly |-> <<0, 0, 0, 0, 0, 0, 0, 0, 0, 0, 0, 0, 0, 0, 1, 11>>, init |-> <<15, 15, 15, 15, 15, 15, 15, 15, 15, 15, 15, 15, 15, 15, 15, 15>>, refin |-> TRUE, refout |-> TRUE, xorout |-> <<15, 15, 15, 15, 15, 15, 15, 15, 15, 15, 15, 15, 15, 15, 15, 15>>, check |-> <<11, 9, 0, 9, 5, 6, 12, 7, 7, 5, 10, 4, 1, 0, 0, 1>>],
  [name |-> "CRC_64_MS", width |-> 64, poly |-> <<2, 5, 9, 12, 8, 4, 12, 11, 10, 6, 4, 2, 6, 3, 4, 9>>, init |-> <<15, 15, 15, 15, 15, 15, 15, 15, 15, 15, 15, 15, 15, 15, 15, 15>>, refin |-> TRUE, refout |-> TRUE, xorout |-> <<0, 0, 0, 0, 0, 0, 0, 0, 0, 0, 0, 0, 0, 0, 0, 0>>, check |-> <<7, 5, 13, 4, 11, 7, 4, 15, 0, 2, 4, 14, 12, 14, 14, 10>>],
  [name |-> "CRC_64_REDIS", width |-> 64, poly |-> <<10, 13, 9, 3, 13, 2, 3, 5, 9, 4, 12, 9, 3, 5, 10, 9>>, init |-> <<0, 0, 0, 0, 0, 0, 0, 0, 0, 0, 0, 0, 0, 0, 0, 0>>, refin |-> TRUE, refout |-> TRUE, xorout |-> <<0, 0, 0, 0, 0, 0, 0, 0, 0, 0, 0, 0, 0, 0, 0, 0>>, check |-> <<14, 9, 12, 6, 13, 9, 1, 4, 12, 4, 11, 8, 13, 9, 12, 10>>],
  [name |-> "CRC_64_WE", width |-> 64, poly |-> <<4, 2, 15, 0, 14, 1, 14, 11, 10, 9, 14, 10, 3, 6, 9, 3>>, init |-> <<15, 15, 15, 15, 15, 15, 15, 15, 15, 15, 15, 15, 15, 15, 15, 15>>, refin |-> FALSE, refout |-> FALSE, xorout |-> <<15, 15, 15, 15, 15, 15, 15, 15, 15, 15, 15, 15, 15, 15, 15, 15>>, check |-> <<6, 2, 14, 12, 5, 9, 14, 3, 15, 1, 10, 4, 15, 0, 0, 10>>],
  [name |-> "CRC_64_XZ", width |-> 64, poly |-> <<4, 2, 15, 0, 14, 1, 14, 11, 10, 9, 14, 10, 3, 6, 9, 3>>, init |-> <<15, 15, 15, 15, 15, 15, 15, 15, 15, 15, 15, 15, 15, 15, 15, 15>>, refin |-> TRUE, refout |-> TRUE, xorout |-> <<15, 15, 15, 15, 15, 15, 15, 15, 15, 15, 15, 15, 15, 15, 15, 15>>, check |-> <<9, 9, 5, 13, 12, 9, 11, 11, 13, 15, 1, 9, 3, 9, 15, 10>>],
  [name |-> "CRC_82_DARC", width |-> 82, poly |-> <<0, 3, 0, 8, 12, 0, 1, 1, 1, 0, 1, 1, 4, 0, 1, 4, 4, 0, 4, 1, 1>>, init |-> <<0, 0, 0, 0, 0, 0, 0, 0, 0, 0, 0, 0, 0, 0, 0, 0, 0, 0, 0, 0, 0>>, refin |-> TRUE, refout |-> TRUE, xorout |-> <<0, 0, 0, 0, 0, 0, 0, 0, 0, 0, 0, 0, 0, 0, 0, 0, 0, 0, 0, 0, 0>>, check |-> <<0, 9, 14, 10, 8, 3, 15, 6, 2, 5, 0, 2, 3, 8, 0, 1, 15, 13, 6, 1, 2>>]
}
Params(name) == CHOOSE alg \in Catalogue : alg.name = name
=============================================================================
