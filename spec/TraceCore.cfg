SPECIFICATION TraceSpec
INVARIANT Report
POSTCONDITION TraceAccepted
CHECK_DEADLOCK FALSE
