------------------------------ MODULE Calendar ------------------------------
(***************************************************************************)
(* Proleptic Gregorian calendar and fixed-offset time arithmetic, used as  *)
(* the reference for timestamp conversions (C35, C25): days since          *)
(* 1970-01-01 from a civil date and back, local time with a UTC offset to  *)
(* (day, second of day) in UTC, and the canonical text renderings.  The    *)
(* two directions are written independently (closed formula vs. walking    *)
(* month lengths) and checked against each other by TLC (ASSUMEs in        *)
(* GenCalendar.tla) before anything is compared with the implementation.   *)
(***************************************************************************)
EXTENDS Integers, Sequences

IsLeap(y) == (y % 4 = 0 /\ y % 100 # 0) \/ y % 400 = 0
DaysInMonth(y, m) == IF m = 2 THEN (IF IsLeap(y) THEN 29 ELSE 28) ELSE IF m \in {4, 6, 9, 11} THEN 30 ELSE 31
ValidDate(y, m, d) == m \in 1..12 /\ d >= 1 /\ d <= DaysInMonth(y, m)

\* closed formula (era arithmetic), y >= 1
DaysFromCivil(y, m, d) ==
  LET yy == IF m <= 2 THEN y - 1 ELSE y
      era == yy \div 400
      yoe == yy - era * 400
      mp == IF m > 2 THEN m - 3 ELSE m + 9
      doy == (153 * mp + 2) \div 5 + d - 1
      doe == yoe * 365 + yoe \div 4 - yoe \div 100 + doy
  IN era * 146097 + doe - 719468

\* independent definition: count the days of whole years and whole months
DaysBeforeYear(y) == LET p == y - 1 IN p * 365 + p \div 4 - p \div 100 + p \div 400
DaysBeforeMonth(y, m) == LET S[k \in 1..12] == IF k = 1 THEN 0 ELSE S[k - 1] + DaysInMonth(y, k - 1) IN S[m]
DaysFromCivilSlow(y, m, d) == DaysBeforeYear(y) + DaysBeforeMonth(y, m) + (d - 1) - (DaysBeforeYear(1970))

CivilFromDays(z0) ==
  LET z == z0 + 719468
      era == z \div 146097
      doe == z - era * 146097
      yoe == (doe - doe \div 1460 + doe \div 36524 - doe \div 146096) \div 365
      doy == doe - (365 * yoe + yoe \div 4 - yoe \div 100)
      mp == (5 * doy + 2) \div 153
      d == doy - (153 * mp + 2) \div 5 + 1
      m == IF mp < 10 THEN mp + 3 ELSE mp - 9
      y == yoe + era * 400 + (IF m <= 2 THEN 1 ELSE 0)
  IN [y |-> y, mo |-> m, d |-> d]

\* c = [y, mo, d, h, mi, s] is a local time `offmin` minutes east of UTC: the instant as (days since epoch, second of day) in UTC
FloorDiv(a, b) == a \div b          \* TLA+'s \div rounds towards minus infinity
ToUtc(c, offmin) ==
  LET sod == c.h * 3600 + c.mi * 60 + c.s - offmin * 60
      shift == FloorDiv(sod, 86400)
  IN [days |-> DaysFromCivil(c.y, c.mo, c.d) + shift, sod |-> sod - shift * 86400]

(* ---------- canonical text (code points) ---------- *)
Digit(n) == 48 + n
Pad2(n) == <<Digit(n \div 10), Digit(n % 10)>>
Pad4(n) == <<Digit(n \div 1000), Digit((n \div 100) % 10), Digit((n \div 10) % 10), Digit(n % 10)>>
Abs(n) == IF n < 0 THEN -n ELSE n
OffColon(offmin) == <<IF offmin < 0 THEN 45 ELSE 43>> \o Pad2(Abs(offmin) \div 60) \o <<58>> \o Pad2(Abs(offmin) % 60)      \* +HH:MM
OffPlain(offmin) == <<IF offmin < 0 THEN 45 ELSE 43>> \o Pad2(Abs(offmin) \div 60) \o Pad2(Abs(offmin) % 60)               \* +HHMM
DateDash(c) == Pad4(c.y) \o <<45>> \o Pad2(c.mo) \o <<45>> \o Pad2(c.d)
TimeColon(c) == Pad2(c.h) \o <<58>> \o Pad2(c.mi) \o <<58>> \o Pad2(c.s)
MonthAbbr == << <<74, 97, 110>>, <<70, 101, 98>>, <<77, 97, 114>>, <<65, 112, 114>>, <<77, 97, 121>>, <<74, 117, 110>>,
                <<74, 117, 108>>, <<65, 117, 103>>, <<83, 101, 112>>, <<79, 99, 116>>, <<78, 111, 118>>, <<68, 101, 99>> >>
\* fraction: <<>> or "." followed by digits (frac = sequence of digit values)
Frac(fr) == IF fr = <<>> THEN <<>> ELSE <<46>> \o [j \in 1..Len(fr) |-> Digit(fr[j])]
RECURSIVE FracNanos(_, _)
FracNanos(fr, scale) == IF fr = <<>> THEN 0 ELSE Head(fr) * scale + FracNanos(Tail(fr), scale \div 10)
Nanos(fr) == FracNanos(fr, 100000000)

Render(fmt, c, offmin, fr) ==
  CASE fmt = "rfc3339" -> DateDash(c) \o <<84>> \o TimeColon(c) \o Frac(fr) \o OffColon(offmin)           \* 2021-02-03T04:05:06.5+05:30
    [] fmt = "rfc3339z" -> DateDash(c) \o <<84>> \o TimeColon(c) \o Frac(fr) \o <<90>>                      \* ...Z (offset 0 only)
    [] fmt = "iso_colon" -> DateDash(c) \o <<84>> \o TimeColon(c) \o OffColon(offmin)                        \* %Y-%m-%dT%H:%M:%S%:z
    [] fmt = "space_z" -> DateDash(c) \o <<32>> \o TimeColon(c) \o <<32>> \o OffPlain(offmin)                \* %Y-%m-%d %H:%M:%S %z
    [] fmt = "clf" -> Pad2(c.d) \o <<47>> \o MonthAbbr[c.mo] \o <<47>> \o Pad4(c.y) \o <<58>> \o TimeColon(c) \o <<32>> \o OffPlain(offmin)   \* %d/%b/%Y:%T %z
    [] fmt = "naive" -> DateDash(c) \o <<32>> \o TimeColon(c)                                                 \* %Y-%m-%d %H:%M:%S, in the default zone
    [] fmt = "naive_t" -> DateDash(c) \o <<84>> \o TimeColon(c)                                               \* %FT%T
=============================================================================
