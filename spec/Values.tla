------------------------------- MODULE Values -------------------------------
(***************************************************************************)
(* The VRL value universe in the transport encoding shared by the          *)
(* specification, the TLC generators and the Rust harness, together with   *)
(* the reference path operations Get / Insert / Remove transcribed from    *)
(* src/value/value/crud/{get,insert,remove}.rs (one CASE arm per Rust      *)
(* match arm).                                                             *)
(*                                                                         *)
(*   null       [t |-> "null"]                                             *)
(*   boolean    [t |-> "bool",  v |-> TRUE]                                *)
(*   integer    [t |-> "int",   n |-> 5]          (fits 32 bits)           *)
(*              [t |-> "int",   w |-> <<l3,l2,l1,l0>>]  16-bit limbs else  *)
(*   float      [t |-> "float", b |-> <<l3,l2,l1,l0>>]  IEEE-754 bits      *)
(*   bytes      [t |-> "bytes", s |-> "text"]     (valid UTF-8)            *)
(*              [t |-> "bytes", c |-> <<b1,..>>]  (otherwise)              *)
(*   timestamp  [t |-> "ts",    s |-> "rfc3339"]                           *)
(*   regex      [t |-> "regex", s |-> "pattern"]                           *)
(*   array      [t |-> "arr",   e |-> <<v1,..,vn>>]                        *)
(*   object     [t |-> "obj",   m |-> [key |-> v]]                         *)
(*                                                                         *)
(* Paths are sequences of segments [f |-> "name"] or [i |-> n].            *)
(***************************************************************************)
EXTENDS Naturals, Integers, Sequences, FiniteSets, TLC

Null      == [t |-> "null"]
Bool(b)   == [t |-> "bool", v |-> b]
IntV(n)   == [t |-> "int", n |-> n]
Str(s)    == [t |-> "bytes", s |-> s]
Arr(e)    == [t |-> "arr", e |-> e]
Obj(m)    == [t |-> "obj", m |-> m]
EmptyObj  == [t |-> "obj", m |-> <<>>]
EmptyArr  == [t |-> "arr", e |-> <<>>]

IsNull(v)    == v.t = "null"
IsBool(v)    == v.t = "bool"
IsInt(v)     == v.t = "int"
IsSmallInt(v) == v.t = "int" /\ "n" \in DOMAIN v
IsFloat(v)   == v.t = "float"
IsBytes(v)   == v.t = "bytes"
IsArr(v)     == v.t = "arr"
IsObj(v)     == v.t = "obj"
IsContainer(v) == v.t \in {"arr", "obj"}

\* VRL "falsy": exactly null and false (Value::try_or / Opcode::And in op.rs).
Falsy(v)  == IsNull(v) \/ (IsBool(v) /\ v.v = FALSE)
Truthy(v) == ~Falsy(v)

\* The kind tag used by Kinds.tla.
PrimTag(v) == CASE v.t = "null"  -> "null"
                [] v.t = "bool"  -> "boolean"
                [] v.t = "int"   -> "integer"
                [] v.t = "float" -> "float"
                [] v.t = "bytes" -> "bytes"
                [] v.t = "ts"    -> "timestamp"
                [] v.t = "regex" -> "regex"
                [] v.t = "arr"   -> "array"
                [] v.t = "obj"   -> "object"

Fields(v) == DOMAIN v.m

-----------------------------------------------------------------------------
(* Paths *)
IsField(s) == "f" \in DOMAIN s
IsIndex(s) == "i" \in DOMAIN s
F(name) == [f |-> name]
I(n)    == [i |-> n]

\* crud/mod.rs get_array_index / array_index: negative indices count from the end.
ResolveIndex(len, i) == IF i >= 0 THEN i ELSE len + i      \* may be negative (out of range)

None == [t |-> "none"]          \* absence (Option::None); never a VRL value
IsNone(v) == v.t = "none"

RECURSIVE Get(_, _)
\* src/value/value/crud/get.rs
Get(v, p) ==
  IF p = <<>> THEN v
  ELSE LET s == Head(p) IN
    IF IsField(s) THEN
       IF IsObj(v) /\ s.f \in DOMAIN v.m THEN Get(v.m[s.f], Tail(p)) ELSE None
    ELSE
       IF IsArr(v) THEN
          LET j == ResolveIndex(Len(v.e), s.i) IN
          IF j >= 0 /\ j < Len(v.e) THEN Get(v.e[j + 1], Tail(p)) ELSE None
       ELSE None

GetOrNull(v, p) == LET r == Get(v, p) IN IF IsNone(r) THEN Null ELSE r

Nulls(n) == [j \in 1..n |-> Null]

\* function update that can add a key
SetKey(m, key, val) == [x \in (DOMAIN m) \cup {key} |-> IF x = key THEN val ELSE m[x]]
DelKey(m, key)      == [x \in (DOMAIN m) \ {key} |-> m[x]]
RemoveAt(e, j)      == [x \in 1..(Len(e) - 1) |-> IF x < j THEN e[x] ELSE e[x + 1]]

RECURSIVE Insert(_, _, _)
\* src/value/value/crud/insert.rs: a non-matching parent is *replaced* by a fresh
\* container; indices past the end pad with nulls at the back, negative indices
\* beyond the length pad at the front.
Insert(v, p, x) ==
  IF p = <<>> THEN x
  ELSE LET s == Head(p) rest == Tail(p) IN
    IF IsField(s) THEN
       LET m     == IF IsObj(v) THEN v.m ELSE <<>>
           child == IF IsObj(v) /\ s.f \in DOMAIN v.m THEN v.m[s.f] ELSE Null
       IN Obj(SetKey(m, s.f, Insert(child, rest, x)))
    ELSE
       LET e   == IF IsArr(v) THEN v.e ELSE <<>>
           len == Len(e)
       IN IF s.i >= 0 THEN
             IF s.i < len
             THEN Arr([e EXCEPT ![s.i + 1] = Insert(e[s.i + 1], rest, x)])
             ELSE Arr(e \o Nulls(s.i - len) \o <<Insert(Null, rest, x)>>)
          ELSE
             LET j == len + s.i IN
             IF j >= 0
             THEN Arr([e EXCEPT ![j + 1] = Insert(e[j + 1], rest, x)])
             ELSE Arr(<<Insert(Null, rest, x)>> \o Nulls((-j) - 1) \o e)

IsEmptyContainer(v) == (IsObj(v) /\ DOMAIN v.m = {}) \/ (IsArr(v) /\ Len(v.e) = 0)

RECURSIVE RemoveRec(_, _, _)
\* src/value/value/crud/remove.rs; result [val |-> value after, rem |-> removed or None, empty |-> BOOLEAN]
RemoveRec(v, p, prune) ==
  LET s == Head(p) rest == Tail(p) IN
  IF IsField(s) THEN
     IF IsObj(v) /\ s.f \in DOMAIN v.m THEN
        IF rest = <<>> THEN [val |-> Obj(DelKey(v.m, s.f)), rem |-> v.m[s.f]]
        ELSE LET r == RemoveRec(v.m[s.f], rest, prune) IN
             IF prune /\ ~IsNone(r.rem) /\ IsEmptyContainer(r.val)
             THEN [val |-> Obj(DelKey(v.m, s.f)), rem |-> r.rem]
             ELSE [val |-> Obj([v.m EXCEPT ![s.f] = r.val]), rem |-> r.rem]
     ELSE [val |-> v, rem |-> None]
  ELSE
     IF IsArr(v) THEN
        LET j == ResolveIndex(Len(v.e), s.i) IN
        IF j >= 0 /\ j < Len(v.e) THEN
           IF rest = <<>> THEN [val |-> Arr(RemoveAt(v.e, j + 1)), rem |-> v.e[j + 1]]
           ELSE LET r == RemoveRec(v.e[j + 1], rest, prune) IN
                IF prune /\ ~IsNone(r.rem) /\ IsEmptyContainer(r.val)
                THEN [val |-> Arr(RemoveAt(v.e, j + 1)), rem |-> r.rem]
                ELSE [val |-> Arr([v.e EXCEPT ![j + 1] = r.val]), rem |-> r.rem]
        ELSE [val |-> v, rem |-> None]
     ELSE [val |-> v, rem |-> None]

\* Value::remove: removing the root empties a container / nulls a scalar.
Remove(v, p, prune) ==
  IF p = <<>> THEN
     [val |-> (CASE IsObj(v) -> EmptyObj [] IsArr(v) -> EmptyArr [] OTHER -> Null), rem |-> v]
  ELSE RemoveRec(v, p, prune)

-----------------------------------------------------------------------------
(* Path relations used by C15 / C16 / C18 *)
IsPrefixOf(p, q) == Len(p) <= Len(q) /\ \A j \in 1..Len(p) : p[j] = q[j]
Related(p, q)    == IsPrefixOf(p, q) \/ IsPrefixOf(q, p)     \* equal, ancestor or descendant

=============================================================================
