--------------------------------- MODULE Tz ---------------------------------
(***************************************************************************)
(* C36 - results are independent of the configured timezone where they     *)
(* should be.                                                               *)
(*                                                                          *)
(* Frame condition of the runtime (from reading the tree): the configured   *)
(* timezone (Context::timezone) is read by exactly these functions:         *)
(*    parse_timestamp (only without a `timezone:` argument), parse_syslog,  *)
(*    parse_apache_log, parse_common_log, parse_nginx_log (for inputs        *)
(*    without an explicit offset), get_timezone_name (reports it).           *)
(* A call is zone-SENSITIVE only if it is one of those AND neither its      *)
(* arguments, its format nor its input pin the zone.  Everything else must  *)
(* give the same result under every configured timezone.  (The              *)
(* classification errs toward "sensitive", which can lose coverage, never   *)
(* raise an alarm.)                                                         *)
(***************************************************************************)
EXTENDS Naturals, Sequences, FiniteSets, TLC, Json, IOUtils

Rec == ndJsonDeserialize(IOEnv.TRACE)
VARIABLES l, viols, cnt
zvars == <<l, viols, cnt>>
Ev == Rec[l]
Bump(c, name) == [c EXCEPT ![name] = @ + 1]

TzReaders == {"parse_timestamp", "parse_syslog", "parse_apache_log", "parse_common_log", "parse_nginx_log", "get_timezone_name"}

\* i: [fn, tzarg (explicit timezone argument), pinned (format / input carries an explicit offset or is an epoch count)]
Sensitive(i) == i.fn \in TzReaders /\ ~i.tzarg /\ ~i.pinned

Zones(r) == DOMAIN r.by_tz
AllEqual(r) == \A a, b \in Zones(r) : r.by_tz[a] = r.by_tz[b]
SomeOk(r) == \E a \in Zones(r) : \E n \in DOMAIN r.by_tz[a] : r.by_tz[a][n].k = "ok"

T_Cmp ==
  /\ l <= Len(Rec) /\ Ev.e = "tzcmp"
  /\ LET sens == Sensitive(Ev.inp) IN
     /\ viols' = (IF sens \/ AllEqual(Ev) THEN viols
                  ELSE Append(viols, [prop |-> "C36", rule |-> "InsensitiveCallAgreesAcrossTimezones", at |-> Ev.law.fn, prog |-> 0, line |-> l,
                                      what |-> [inp |-> Ev.inp, by_tz |-> Ev.by_tz]]))
     /\ cnt' = LET c1 == Bump(cnt, "cases")
                   c2 == IF sens THEN Bump(c1, "sensitive") ELSE Bump(c1, "insensitive")
                   c3 == IF sens /\ ~AllEqual(Ev) THEN Bump(c2, "sensitive_and_differs") ELSE c2
                   c4 == IF ~sens /\ SomeOk(Ev) THEN Bump(c3, "insensitive_ok") ELSE c3
               IN c4
  /\ l' = l + 1

T_Lost ==
  /\ l <= Len(Rec) /\ Ev.e = "call"
  /\ viols' = viols /\ cnt' = Bump(cnt, "lost")
  /\ l' = l + 1

Init == l = 1 /\ viols = <<>> /\ cnt = [c \in {"cases", "sensitive", "insensitive", "sensitive_and_differs", "insensitive_ok", "lost"} |-> 0]
Next == T_Cmp \/ T_Lost
TraceSpec == Init /\ [][Next]_zvars
Report == (l = Len(Rec) + 1) =>
   PrintT(<<"RESULT", ToJson([consumed |-> l - 1, viols |-> viols, divs |-> <<>>, cnt |-> cnt])>>)
TraceAccepted == \/ TLCGet("stats").diameter - 1 = Len(Rec)
                 \/ PrintT(<<"STUCK", TLCGet("stats").diameter, Len(Rec)>>)
=============================================================================
