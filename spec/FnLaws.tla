------------------------------- MODULE FnLaws -------------------------------
(***************************************************************************)
(* Algebraic laws of stdlib functions (C28), encoder/parser round trips    *)
(* (C24) and paired conversions (C25), evaluated by TLC on results         *)
(* recorded from the real functions.  A record names its law, carries the  *)
(* inputs (`inp`) and the results `r` of the VRL expressions the driver    *)
(* evaluated for that law; strings come with their code points (`u`).      *)
(* Every law is a predicate over `inp` and `r`; Radix is an independent    *)
(* model of integer formatting (long division on limbs).                   *)
(***************************************************************************)
EXTENDS Codecs, Calendar, Proto, Json, IOUtils

Rec == ndJsonDeserialize(IOEnv.TRACE)
VARIABLES l, viols, cnt
lvars == <<l, viols, cnt>>
Ev == Rec[l]
Bump(c, name) == [c EXCEPT ![name] = @ + 1]

Ok(x) == x.k = "ok"
V(x) == x.v
U(x) == x.v.u                      \* code points of a string result
IsStr(x) == Ok(x) /\ x.v.t = "bytes" /\ "u" \in DOMAIN x.v
IsBoolR(x) == Ok(x) /\ x.v.t = "bool"

(* ---------- sequences of code points ---------- *)
IsPrefix(p, s) == Len(p) <= Len(s) /\ SubSeq(s, 1, Len(p)) = p
IsSuffix(p, s) == Len(p) <= Len(s) /\ SubSeq(s, Len(s) - Len(p) + 1, Len(s)) = p
IsInfix(p, s) == \E i \in 0..(Len(s) - Len(p)) : SubSeq(s, i + 1, i + Len(p)) = p
\* Unicode White_Space restricted to the characters of the generators' alphabet
WS == {32, 9, 10, 13, 160, 8195}
RECURSIVE DropLeadWs(_)
DropLeadWs(s) == IF s # <<>> /\ Head(s) \in WS THEN DropLeadWs(Tail(s)) ELSE s
RECURSIVE DropTrailWs(_)
DropTrailWs(s) == IF s # <<>> /\ s[Len(s)] \in WS THEN DropTrailWs(SubSeq(s, 1, Len(s) - 1)) ELSE s
Strip(s) == DropTrailWs(DropLeadWs(s))
\* slice(s, start, end): negative bounds count from the end; result [start, end)
Norm(n, len) == IF n < 0 THEN (IF len + n < 0 THEN 0 ELSE len + n) ELSE (IF n > len THEN len ELSE n)

(* ---------- arrays ---------- *)
RECURSIVE Uniq(_, _)
Uniq(s, seen) == IF s = <<>> THEN <<>>
                 ELSE IF Head(s) \in seen THEN Uniq(Tail(s), seen) ELSE <<Head(s)>> \o Uniq(Tail(s), seen \cup {Head(s)})
Plain(v) == IF v.t = "bytes" THEN [t |-> "bytes", s |-> v.s] ELSE IF v.t = "int" THEN [t |-> "int", w |-> v.w] ELSE v
IsEmptyV(v) == v.t = "null" \/ (v.t = "bytes" /\ "u" \in DOMAIN v /\ v.u = <<>>) \/ (v.t = "arr" /\ v.e = <<>>) \/ (v.t = "obj" /\ DOMAIN v.m = {})

(* ---------- Radix: integer -> digits in base b (2..36), independent of the code ---------- *)
DigitChars == <<48, 49, 50, 51, 52, 53, 54, 55, 56, 57, 97, 98, 99, 100, 101, 102, 103, 104, 105, 106, 107, 108, 109, 110, 111, 112,
                113, 114, 115, 116, 117, 118, 119, 120, 121, 122>>
\* long division of a big-endian byte sequence by a small base: [q |-> bytes, r |-> remainder]
RECURSIVE DivB(_, _, _)
DivB(bytes, base, rem) == IF bytes = <<>> THEN [q |-> <<>>, r |-> rem]
                          ELSE LET cur == rem * 256 + Head(bytes)
                                   rest == DivB(Tail(bytes), base, cur % base)
                               IN [q |-> <<cur \div base>> \o rest.q, r |-> rest.r]
AllZero(bytes) == \A j \in 1..Len(bytes) : bytes[j] = 0
RECURSIVE DigitsOf(_, _)
DigitsOf(bytes, base) == IF AllZero(bytes) THEN <<>>
                         ELSE LET d == DivB(bytes, base, 0) IN DigitsOf(d.q, base) \o <<DigitChars[d.r + 1]>>
BigEndianBytes(w) == <<w[1] \div 256, w[1] % 256, w[2] \div 256, w[2] % 256, w[3] \div 256, w[3] % 256, w[4] \div 256, w[4] % 256>>
FormatRadix(w, base) == IF w = Zero THEN <<48>>
                        ELSE IF NegativeW(w) THEN <<45>> \o DigitsOf(BigEndianBytes(NegW(w)), base)
                        ELSE DigitsOf(BigEndianBytes(w), base)


(* ---------- C22 / C23: codecs and ciphers ---------- *)
\*  i.x the input bytes, r.enc the encoder's result, r.dec the decoder applied to it.
\*  i.total: the encoder accepts every byte string; i.model names the independent model of the encoded text, if any
BytesR(x) == Ok(x) /\ x.v.t = "bytes"
EncText(r) == BytesOf(V(r.enc))
CodecLaw(r, i) ==
  /\ (i.total => BytesR(r.enc))
  /\ (Ok(r.enc) => (BytesR(r.enc) /\ BytesR(r.dec) /\ BytesOf(V(r.dec)) = BytesOf(i.x)))
  /\ (Ok(r.enc) =>
        CASE i.model = "base16" -> EncText(r) = Base16(BytesOf(i.x))
          [] i.model = "base64" -> EncText(r) = Base64(BytesOf(i.x), i.urlsafe, i.pad)
          [] i.model = "percent_nonalnum" -> EncText(r) = PercentNonAlnum(BytesOf(i.x))
          [] i.model = "percent" -> PercentShape(EncText(r), BytesOf(i.x))
          [] OTHER -> TRUE)
CipherLaw(r, i) ==
  /\ (i.documented => BytesR(r.enc))
  /\ (Ok(r.enc) => (BytesR(r.dec) /\ BytesOf(V(r.dec)) = BytesOf(i.x)))
\* encrypt_ip / decrypt_ip: compared through the 4 / 16 address bytes (ip_pton), so textual forms do not matter
IpCipherLaw(r, i) ==
  /\ BytesR(r.orig)
  /\ (i.documented => BytesR(r.enc))
  /\ (Ok(r.enc) => (BytesR(r.back) /\ BytesOf(V(r.back)) = BytesOf(V(r.orig))))

(* ---------- C21: JSON ---------- *)
RECURSIVE JsonEq(_, _)
JsonEq(a, b) ==
  /\ a.t = b.t
  /\ CASE a.t = "bytes" -> BytesOf(a) = BytesOf(b)
        [] a.t = "int" -> a.w = b.w
        [] a.t = "float" -> WithinOneUlp(a.b, b.b)
        [] a.t = "bool" -> a.v = b.v
        [] a.t = "null" -> TRUE
        [] a.t = "arr" -> Len(a.e) = Len(b.e) /\ \A j \in 1..Len(a.e) : JsonEq(a.e[j], b.e[j])
        [] a.t = "obj" -> DOMAIN a.m = DOMAIN b.m /\ \A f \in DOMAIN a.m : JsonEq(a.m[f], b.m[f])
        [] OTHER -> FALSE
RECURSIVE JsonSame(_, _)
JsonSame(a, b) ==      \* as JsonEq but floats bit-identical (up to the sign of zero)
  /\ a.t = b.t
  /\ CASE a.t = "float" -> (a.b = b.b \/ (FIsZero(a.b) /\ FIsZero(b.b)))
        [] a.t = "arr" -> Len(a.e) = Len(b.e) /\ \A j \in 1..Len(a.e) : JsonSame(a.e[j], b.e[j])
        [] a.t = "obj" -> DOMAIN a.m = DOMAIN b.m /\ \A f \in DOMAIN a.m : JsonSame(a.m[f], b.m[f])
        [] OTHER -> JsonEq(a, b)
RECURSIVE JsonEq2(_, _)
JsonEq2(a, b) ==       \* as JsonEq with floats at most two units in the last place apart (names the known deviation)
  /\ a.t = b.t
  /\ CASE a.t = "float" -> WithinTwoUlp(a.b, b.b)
        [] a.t = "arr" -> Len(a.e) = Len(b.e) /\ \A j \in 1..Len(a.e) : JsonEq2(a.e[j], b.e[j])
        [] a.t = "obj" -> DOMAIN a.m = DOMAIN b.m /\ \A f \in DOMAIN a.m : JsonEq2(a.m[f], b.m[f])
        [] OTHER -> JsonEq(a, b)
JsonOnlyTwoUlp(r, i) == /\ Ok(r.compact) /\ Ok(r.pretty) /\ Ok(r.serde)
                        /\ JsonEq2(V(r.compact), i.x) /\ JsonSame(V(r.compact), V(r.pretty)) /\ JsonSame(V(r.compact), V(r.serde))
JsonLaw(r, i) ==
  /\ Ok(r.compact) /\ JsonEq(V(r.compact), i.x)
  /\ Ok(r.pretty) /\ JsonEq(V(r.pretty), i.x)
  /\ Ok(r.serde) /\ JsonEq(V(r.serde), i.x)
  /\ JsonSame(V(r.compact), V(r.pretty)) /\ JsonSame(V(r.compact), V(r.serde))     \* "behaves the same way"


(* ---------- C35: the embedder's conversions (results per default timezone in r) ---------- *)
\* documented spellings of booleans (compiler/conversion): true/t/yes/y and false/f/no/n in any case, 0, non-zero integers
Lower(c) == IF c >= 65 /\ c <= 90 THEN c + 32 ELSE c
LowerSeq(u) == [j \in 1..Len(u) |-> Lower(u[j])]
TrueWords == { <<116, 114, 117, 101>>, <<116>>, <<121, 101, 115>>, <<121>> }
FalseWords == { <<102, 97, 108, 115, 101>>, <<102>>, <<110, 111>>, <<110>> }
AllTz(r, P(_)) == \A z \in DOMAIN r : P(r[z])
ConvLaw(r, i) ==
  CASE i.kind = "int" -> AllTz(r, LAMBDA x : Ok(x) /\ x.v.t = "int" /\ x.v.w = i.x.w) /\ i.text.u = FormatRadix(i.x.w, 10)
    [] i.kind = "bool" -> /\ (LowerSeq(i.text.u) \in TrueWords) = (i.expect = "true" /\ ~i.numeric)
                          /\ (LowerSeq(i.text.u) \in FalseWords) = (i.expect = "false" /\ ~i.numeric)
                          /\ AllTz(r, LAMBDA x : IF i.expect = "reject" THEN x.k = "err" ELSE (Ok(x) /\ x.v.t = "bool" /\ x.v.v = (i.expect = "true")))
    [] i.kind = "float" -> AllTz(r, LAMBDA x : Ok(x) /\ x.v.t = "float" /\ (x.v.b = i.x.b \/ (FIsZero(x.v.b) /\ FIsZero(i.x.b) /\ FSign(x.v.b) = FSign(i.x.b))))
    [] i.kind = "bytes" -> AllTz(r, LAMBDA x : Ok(x) /\ x.v.t = "bytes" /\ BytesOf(x.v) = BytesOf(i.text))
    [] i.kind = "unknown" -> AllTz(r, LAMBDA x : x.k = "unknown")
    \* timestamps: the text is the model's rendering of local time c at offset `off` (explicit in the text when i.zoned, else the
    \* default zone's own fixed offset i.zones[z]); the result must be the instant the calendar model computes, under every default zone
    [] i.kind = "ts" -> /\ i.text.u = Render(i.fmt, i.c, i.off, i.fr)
                        /\ \A z \in DOMAIN r :
                              LET want == ToUtc(i.c, IF i.zoned THEN i.off ELSE i.zones[z]) IN
                              /\ Ok(r[z]) /\ r[z].v.t = "ts"
                              /\ r[z].inst.days = want.days /\ r[z].inst.sod = want.sod /\ r[z].inst.ns = Nanos(i.fr)


(* ---------- C29: numeric functions (integers as four 16-bit limbs, doubles as IEEE bit patterns) ---------- *)
IntR(x) == Ok(x) /\ x.v.t = "int"
FloatR(x) == Ok(x) /\ x.v.t = "float"
Fb(x) == x.v.b
AbsW(w) == IF NegativeW(w) THEN NegW(w) ELSE w            \* wraps at the minimum integer only: NegW(MIN) = MIN
SignW(w) == IF w = Zero THEN 0 ELSE IF NegativeW(w) THEN -1 ELSE 1
MagLtW(a, b) == LtU(AbsW(a), AbsW(b), 1)                   \* |a| < |b| as unsigned magnitudes (|MIN| = 2^63 fits unsigned)
FZeroBits == <<0, 0, 0, 0>>
FHalf == <<16352, 0, 0, 0>>
FOne == <<16368, 0, 0, 0>>
FSameNumber(a, b) == a = b \/ (FIsZero(a) /\ FIsZero(b))
NumLaw(r, i) ==
  CASE i.kind = "abs_int" -> IntR(r.out) /\ r.out.v.w = AbsW(i.x.w)
    [] i.kind = "abs_float" -> FloatR(r.out) /\ Fb(r.out) = FMag(i.x.b)
    \* truncated remainder: a = q*b + r with q the quotient rounded towards zero (given by the driver, checked here by the
    \* identity in 64-bit arithmetic), |r| < |b| and r is zero or has the sign of a - these pin r uniquely
    [] i.kind = "mod_int" -> /\ IntR(r.out)
                             /\ AddW(MulW(i.q.w, i.b.w), r.out.v.w) = i.a.w
                             /\ MagLtW(r.out.v.w, i.b.w)
                             /\ SignW(r.out.v.w) \in {0, SignW(i.a.w)}
    [] i.kind = "mod_float" -> /\ FloatR(r.out) /\ FIsFinite(Fb(r.out))
                               /\ FLt(FMag(Fb(r.out)), FMag(i.b.b))
                               /\ (FIsZero(Fb(r.out)) \/ FSign(Fb(r.out)) = FSign(i.a.b))
    \* round / ceil / floor on integers: the value itself whatever the precision
    [] i.kind = "round_int" -> \A n \in {"round", "ceil", "floor"} : IntR(r[n]) /\ r[n].v.w = i.x.w
    \* precision 0 on doubles: floor <= x <= ceil, ceil - floor is 0 or 1 (the machine subtraction is exact there), round is one
    \* of the two and within one half of x (`near` = |round - x| <= 0.5 evaluated by the machine comparison)
    [] i.kind = "round_f0" -> /\ FloatR(r.ceil) /\ FloatR(r.floor) /\ FloatR(r.round)
                              /\ FIsFinite(Fb(r.ceil)) /\ FIsFinite(Fb(r.floor))
                              /\ FLe(i.x.b, Fb(r.ceil)) /\ FLe(Fb(r.floor), i.x.b)
                              /\ FloatR(r.width) /\ (FSameNumber(Fb(r.width), FZeroBits) \/ Fb(r.width) = FOne)
                              /\ (FSameNumber(Fb(r.width), FZeroBits) => FSameNumber(Fb(r.ceil), i.x.b))
                              /\ (FSameNumber(Fb(r.round), Fb(r.ceil)) \/ FSameNumber(Fb(r.round), Fb(r.floor)))
                              /\ IsBoolR(r.near) /\ r.near.v.v
    \* precision p > 0: finite, ceil never below, floor never above, all three within 10^-p of x (`tol_*` = |f(x) - x| <= 10^-p
    \* evaluated by the machine's subtraction and comparison against the literal bound)
    [] i.kind = "round_fp" -> /\ FloatR(r.ceil) /\ FloatR(r.floor) /\ FloatR(r.round)
                              /\ FIsFinite(Fb(r.ceil)) /\ FIsFinite(Fb(r.floor)) /\ FIsFinite(Fb(r.round))
                              /\ FLe(i.x.b, Fb(r.ceil)) /\ FLe(Fb(r.floor), i.x.b)
                              /\ IsBoolR(r.tol_ceil) /\ r.tol_ceil.v.v /\ IsBoolR(r.tol_floor) /\ r.tol_floor.v.v /\ IsBoolR(r.tol_round) /\ r.tol_round.v.v
    \* (RoundFpRelaxed below names the deviations that stay within two units in the last place of x)
    \* conversions agree with each other and with the radix model
    [] i.kind = "conv_int" -> /\ IsStr(r.str) /\ U(r.str) = FormatRadix(i.x.w, 10)
                              /\ IntR(r.parse) /\ r.parse.v.w = i.x.w
                              /\ IntR(r.toint) /\ r.toint.v.w = i.x.w
                              /\ FloatR(r.tofloat) /\ FloatR(r.tofloat_str) /\ Fb(r.tofloat) = Fb(r.tofloat_str)
                              /\ (i.exact => (IntR(r.back) /\ r.back.v.w = i.x.w))
    [] i.kind = "conv_float" -> /\ IsStr(r.str)
                                /\ FloatR(r.parse) /\ FSameNumber(Fb(r.parse), i.x.b)
                                /\ FloatR(r.tofloat) /\ FSameNumber(Fb(r.tofloat), i.x.b)
                                /\ (i.integral => (IntR(r.toint) /\ FloatR(r.back) /\ FSameNumber(Fb(r.back), i.x.b)
                                                   /\ IntR(r.toint_str) /\ r.toint_str.v.w = r.toint.v.w))

\* the same statement up to the representation of doubles: ceil not below x by more than two neighbouring doubles, floor not
\* above likewise, and the distances within 10^-p plus four units in the last place of x (`tol2_*`, evaluated by the machine)
RoundFpRelaxed(r, i) ==
  /\ FloatR(r.ceil) /\ FloatR(r.floor) /\ FloatR(r.round)
  /\ FIsFinite(Fb(r.ceil)) /\ FIsFinite(Fb(r.floor)) /\ FIsFinite(Fb(r.round))
  /\ (FLe(i.x.b, Fb(r.ceil)) \/ WithinTwoUlp(Fb(r.ceil), i.x.b))
  /\ (FLe(Fb(r.floor), i.x.b) \/ WithinTwoUlp(Fb(r.floor), i.x.b))
  /\ IsBoolR(r.tol2_ceil) /\ r.tol2_ceil.v.v /\ IsBoolR(r.tol2_floor) /\ r.tol2_floor.v.v /\ IsBoolR(r.tol2_round) /\ r.tol2_round.v.v

(* ---------- the laws ---------- *)
Same(a, b) == (Ok(a) /\ Ok(b) /\ V(a) = V(b))
Law(r, i, name) ==
  CASE name = "idempotent" -> Ok(r.once) => Same(r.once, r.twice)
    [] name = "strip_whitespace" -> IsStr(r.out) /\ U(r.out) = Strip(i.s.u)
    [] name = "split_join" -> Ok(r.parts) => (IsStr(r.joined) /\ V(r.joined).s = i.s.s)
    [] name = "substring" -> /\ IsBoolR(r.starts) /\ V(r.starts).v = IsPrefix(i.d.u, i.s.u)
                             /\ IsBoolR(r.ends) /\ V(r.ends).v = IsSuffix(i.d.u, i.s.u)
                             /\ IsBoolR(r.has) /\ V(r.has).v = IsInfix(i.d.u, i.s.u)
    [] name = "truncate" -> IsStr(r.out) /\ Len(U(r.out)) <= i.n + (IF i.suffix THEN 3 ELSE 0)
                            /\ (Len(i.s.u) <= i.n => U(r.out) = i.s.u)
                            /\ (~i.suffix => IsPrefix(U(r.out), i.s.u))
    [] name = "strlen" -> Ok(r.out) /\ V(r.out).t = "int" /\ V(r.out).n = Len(i.s.u)
    [] name = "slice_str" -> LET len == Len(i.s.u)  a == Norm(i.a, len)  b == Norm(i.b, len) IN
                             IF a <= b /\ (i.a >= -len /\ i.a <= len)
                             THEN (Ok(r.out) => (IsStr(r.out) /\ U(r.out) = SubSeq(i.s.u, a + 1, b)))
                             ELSE TRUE
    [] name = "unique" -> Ok(r.out) /\ [j \in 1..Len(V(r.out).e) |-> Plain(V(r.out).e[j])] = Uniq([j \in 1..Len(i.a.e) |-> Plain(i.a.e[j])], {})
    [] name = "compact_arr" -> Ok(r.out) /\ [j \in 1..Len(V(r.out).e) |-> Plain(V(r.out).e[j])]
                                            = LET kept == SelectSeq(i.a.e, LAMBDA x : ~IsEmptyV(x)) IN [j \in 1..Len(kept) |-> Plain(kept[j])]
    [] name = "keys_values_length" -> /\ Ok(r.keys) /\ [j \in 1..Len(V(r.keys).e) |-> V(r.keys).e[j].s] = [j \in 1..Len(i.o.ks) |-> i.o.ks[j].s]
                                      /\ Ok(r.len) /\ V(r.len).n = Len(i.o.ks)
                                      /\ Ok(r.vals) /\ Len(V(r.vals).e) = Len(i.o.ks)
                                      /\ \A j \in 1..Len(i.o.ks) : Plain(V(r.vals).e[j]) = Plain(i.o.m[i.o.ks[j].s])
    [] name = "merge" -> Ok(r.out) /\ DOMAIN V(r.out).m = (DOMAIN i.o.m) \cup (DOMAIN i.o2.m)
                         /\ \A f \in DOMAIN V(r.out).m : Plain(V(r.out).m[f]) = Plain(IF f \in DOMAIN i.o2.m THEN i.o2.m[f] ELSE i.o.m[f])
    \* C22 C23 C21
    [] name = "proto_roundtrip" -> Ok(r.enc) /\ Ok(r.dec) /\ V(r.dec).t = "obj" /\ SameMsg(V(r.dec), i.x, i.type)
    [] name = "conv" -> ConvLaw(r, i)
    [] name = "numeric" -> NumLaw(r, i)
    [] name = "codec" -> CodecLaw(r, i)
    [] name = "cipher" -> CipherLaw(r, i)
    [] name = "ip_cipher" -> IpCipherLaw(r, i)
    [] name = "json_roundtrip" -> JsonLaw(r, i)
    \* C24
    [] name = "kv_roundtrip" -> Ok(r.enc) => (Ok(r.dec) /\ DOMAIN V(r.dec).m = DOMAIN i.o.m
                                              /\ \A f \in DOMAIN i.o.m : V(r.dec).m[f].t = "bytes" /\ V(r.dec).m[f].s = i.o.m[f].s)
    [] name = "csv_roundtrip" -> Ok(r.enc) => (Ok(r.dec) /\ [j \in 1..Len(V(r.dec).e) |-> V(r.dec).e[j].s] = [j \in 1..Len(i.a.e) |-> i.a.e[j].s])
    \* C25
    [] name = "inverse" -> Ok(r.fwd) => (Ok(r.back) /\ Plain(V(r.back)) = Plain(i.x))
    [] name = "inverse_obj" -> Ok(r.fwd) => (Ok(r.back) /\ V(r.back).m = i.x.m)
    [] name = "format_int" -> /\ IsStr(r.fwd) /\ U(r.fwd) = FormatRadix(i.x.w, i.base)       \* Radix model
                              /\ Ok(r.back) /\ V(r.back).t = "int" /\ V(r.back).w = i.x.w      \* parse_int(format_int(x)) = x


(* ---------- C31: reference semantics of the leaves of a Datadog search query on attributes and tags ---------- *)
\* Numbers are carried in tenths (n10, b10) so that fractional bounds are exact integers here; strings as code points.
\* ev: [has_n, n10, has_a, a, tags] - the abstract event; leaf: [k, ...] - the abstract leaf (the driver renders both).
CmpOp(op, a, b) == CASE op = "lt" -> a < b [] op = "le" -> a <= b [] op = "gt" -> a > b [] op = "ge" -> a >= b
SeqLt(a, b) == BytesLt(Utf8Seq(a), Utf8Seq(b))          \* strings order by their UTF-8 bytes
StrCmp(op, a, b) == CASE op = "lt" -> SeqLt(a, b) [] op = "le" -> (SeqLt(a, b) \/ a = b) [] op = "gt" -> SeqLt(b, a) [] op = "ge" -> (SeqLt(b, a) \/ a = b)
RECURSIVE Glob(_, _)
Glob(p, str) == IF p = <<>> THEN str = <<>>
                ELSE IF Head(p) = 42 THEN \E k \in 0..Len(str) : Glob(Tail(p), SubSeq(str, k + 1, Len(str)))
                ELSE str # <<>> /\ Head(str) = Head(p) /\ Glob(Tail(p), Tail(str))
DdLeaf(leaf, ev) ==
  CASE leaf.k = "num_cmp" -> ev.has_n /\ CmpOp(leaf.op, ev.n10, leaf.b10)
    [] leaf.k = "num_range" -> ev.has_n /\ CmpOp(IF leaf.incl THEN "ge" ELSE "gt", ev.n10, leaf.lo10) /\ CmpOp(IF leaf.incl THEN "le" ELSE "lt", ev.n10, leaf.hi10)
    [] leaf.k = "str_cmp" -> ev.has_a /\ StrCmp(leaf.op, ev.a, leaf.s)
    [] leaf.k = "str_range" -> ev.has_a /\ StrCmp(IF leaf.incl THEN "ge" ELSE "gt", ev.a, leaf.lo) /\ StrCmp(IF leaf.incl THEN "le" ELSE "lt", ev.a, leaf.hi)
    [] leaf.k = "attr_term" -> ev.has_a /\ ev.a = leaf.s
    [] leaf.k = "attr_glob" -> ev.has_a /\ Glob(leaf.s, ev.a)           \* prefix `x*`, suffix `*x`, infix `x*y`
    [] leaf.k = "exists" -> ev.has_a
    [] leaf.k = "missing" -> ~ev.has_a
    [] leaf.k = "tag_term" -> \E j \in 1..Len(ev.tags) : ev.tags[j] = leaf.key \o <<58>> \o leaf.s
    [] leaf.k = "tag_glob" -> \E j \in 1..Len(ev.tags) : Glob(leaf.key \o <<58>> \o leaf.s, ev.tags[j])

\* C30 / C31: Datadog search
BoolR(x) == Ok(x) /\ x.v.t = "bool"
B(x) == x.v.v
DdLaw(r, i, name) ==
  CASE name = "dd_roundtrip" -> r.rt.parsed => (r.rt.reparsed /\ r.rt.same /\ r.rt.tree = r.rt.tree2)
    [] name = "dd_compose" ->
         (BoolR(r.A) /\ BoolR(r.B)) =>
            /\ BoolR(r.and) /\ B(r.and) = (B(r.A) /\ B(r.B))
            /\ BoolR(r.or) /\ B(r.or) = (B(r.A) \/ B(r.B))
            /\ BoolR(r.notA) /\ B(r.notA) = ~B(r.A)
            /\ BoolR(r.negA) /\ B(r.negA) = ~B(r.A)
            /\ BoolR(r.grpA) /\ B(r.grpA) = B(r.A)
            /\ BoolR(r.juxt) /\ B(r.juxt) = (B(r.A) /\ B(r.B))
            /\ BoolR(r.nested) /\ B(r.nested) = (~(B(r.A) /\ B(r.B)) \/ B(r.B))
    [] name = "dd_range" ->
         (BoolR(r.lo) /\ BoolR(r.hi)) => (BoolR(r.range) /\ B(r.range) = (B(r.lo) /\ B(r.hi)))
    [] name = "dd_leaf" -> BoolR(r.m) /\ B(r.m) = DdLeaf(i.leaf, i.ev)

\* C32: grok
\*  cyc   : rule with alias definitions: compilation must be rejected iff a cycle is reachable (i.cyclic computed by the generator's graph search)
\*  lit   : a literal-only rule (metacharacters escaped) matches exactly its own text
\*  cap   : a rule of literals and capture patterns: match <=> reference, captured fields = reference captures
GrokLaw(r, i) ==
  CASE i.kind = "cyc" -> (r.out.k \in {"err", "rejected"}) = i.cyclic
    [] i.kind = "lit" -> Ok(r.out) /\ (r.out.v.t = "obj") /\ TRUE
    [] i.kind = "nomatch" -> r.out.k \in {"err"}
    \* (a capture that matched the empty string is left out of the result by the grok engine)
    [] i.kind = "cap" -> IF i.expect_match THEN Ok(r.out) /\ \A f \in DOMAIN i.caps :
                                                   \/ (f \in DOMAIN r.out.v.m /\ Plain(r.out.v.m[f]) = Plain(i.caps[f]))
                                                   \/ (f \notin DOMAIN r.out.v.m /\ i.caps[f].t = "bytes" /\ i.caps[f].u = <<>>)
                         ELSE r.out.k = "err"

Prop(name) == IF name = "dd_roundtrip" THEN "C30" ELSE IF name \in {"dd_compose", "dd_range", "dd_leaf"} THEN "C31"
              ELSE IF name = "grok" THEN "C32"
              ELSE IF name = "proto_roundtrip" THEN "C26" ELSE IF name = "conv" THEN "C35" ELSE IF name = "numeric" THEN "C29" ELSE IF name = "codec" THEN "C22" ELSE IF name \in {"cipher", "ip_cipher"} THEN "C23" ELSE IF name = "json_roundtrip" THEN "C21"
              ELSE IF name \in {"kv_roundtrip", "csv_roundtrip"} THEN "C24"
              ELSE IF name \in {"inverse", "inverse_obj", "format_int"} THEN "C25" ELSE "C28"

\* circumstances that name a finding more precisely than the function alone
NonAscii(u) == \E j \in 1..Len(u) : u[j] > 127
ObjHasChar(o, cs) == \E j \in 1..Len(o.ks) : (\E q \in 1..Len(o.ks[j].u) : o.ks[j].u[q] \in cs)
                                               \/ (LET v == o.m[o.ks[j].s] IN v.t = "bytes" /\ \E q \in 1..Len(v.u) : v.u[q] \in cs)
ArrHasChar(a, cs) == \E j \in 1..Len(a.e) : \E q \in 1..Len(a.e[j].u) : a.e[j].u[q] \in cs
Where(name, fn, i) ==
  CASE name = "slice_str" /\ NonAscii(i.s.u) -> fn \o ":multi-byte-string"
    [] name = "kv_roundtrip" /\ ObjHasChar(i.o, {92, 10}) -> fn \o ":backslash-or-newline"
    [] name = "kv_roundtrip" /\ ObjHasChar(i.o, {34, 61, 58, 44, 9, 32}) -> fn \o ":quote-delimiter-or-whitespace"
    [] name = "csv_roundtrip" /\ ArrHasChar(i.a, {92, 10, 34}) -> fn \o ":backslash-newline-or-quote"
    [] name \in {"dd_roundtrip", "dd_range", "dd_leaf", "grok"} -> i.shape
    [] name = "json_roundtrip" -> fn \o ":" \o (IF JsonOnlyTwoUlp(Ev.r, i) THEN "float-off-by-two-ulp" ELSE i.shape)
    [] name = "numeric" -> fn \o ":" \o (IF i.kind = "round_fp" /\ RoundFpRelaxed(Ev.r, i) THEN "precision>0:within-two-ulp-of-the-statement" ELSE i.shape)
    [] name \in {"codec", "cipher", "ip_cipher", "conv", "proto_roundtrip"} -> fn \o ":" \o i.shape
    [] OTHER -> fn

Panics(r) == \E n \in DOMAIN r : r[n].k = "panic"

T_Law ==
  /\ l <= Len(Rec) /\ Ev.e = "law"
  /\ LET ok == IF Ev.law.name \in {"dd_roundtrip", "dd_compose", "dd_range", "dd_leaf"} THEN DdLaw(Ev.r, Ev.inp, Ev.law.name)
               ELSE IF Ev.law.name = "grok" THEN GrokLaw(Ev.r, Ev.inp)
               ELSE Law(Ev.r, Ev.inp, Ev.law.name) IN
     /\ viols' = (IF ok THEN viols
                  ELSE Append(viols, [prop |-> Prop(Ev.law.name), rule |-> Ev.law.name, at |-> Where(Ev.law.name, Ev.law.fn, Ev.inp), prog |-> 0, line |-> l,
                                      what |-> [inp |-> Ev.inp, r |-> Ev.r]]))
                 \o (IF Panics(Ev.r) THEN << [prop |-> "C04", rule |-> "NoPanic", at |-> Ev.law.fn, prog |-> 0, line |-> l, what |-> [inp |-> Ev.inp]] >> ELSE <<>>)
     /\ cnt' = Bump(Bump(cnt, "laws"), Prop(Ev.law.name))
  /\ l' = l + 1

T_Lost ==
  /\ l <= Len(Rec) /\ Ev.e = "call"
  /\ viols' = Append(viols, [prop |-> "C05", rule |-> "LawEvaluation:" \o Ev.out.k, at |-> "eval", prog |-> 0, line |-> l, what |-> [src |-> Ev.src]])
  /\ cnt' = Bump(cnt, "laws")
  /\ l' = l + 1

Init == l = 1 /\ viols = <<>> /\ cnt = [c \in {"laws", "C21", "C22", "C23", "C24", "C25", "C26", "C28", "C29", "C30", "C31", "C32", "C35"} |-> 0]
Next == T_Law \/ T_Lost
TraceSpec == Init /\ [][Next]_lvars
Report == (l = Len(Rec) + 1) =>
   PrintT(<<"RESULT", ToJson([consumed |-> l - 1, viols |-> viols, divs |-> <<>>, cnt |-> cnt])>>)
TraceAccepted == \/ TLCGet("stats").diameter - 1 = Len(Rec)
                 \/ PrintT(<<"STUCK", TLCGet("stats").diameter, Len(Rec)>>)
=============================================================================
