------------------------------ MODULE GenTokens ------------------------------
(* The token alphabet for source-text generation (C04 / C33): one representative per lexer token
   class, plus multi-byte and escape-heavy variants.  Printed once; the driver enumerates all
   sequences up to the tier's length and mutates corpus programs with the same tokens. *)
EXTENDS Sequences, Json, TLC, SequencesExt
Tokens == << "x", "é", ".a", ".", "%m", ".\"b c\"", ".a[0]", ".a[-1]", "1", "1.5", "\"s\"", "\"é{{ x }}\"", "\"\\n\\t\\\\\"", "s'r'", "r'a'", "t'2021-01-01T00:00:00Z'",
             "\"\\u{}\"", "\"\\u{D800}\"", "\"\\u{1F600}é\"", "\"\\x\"", " ", "x.\"é\\\"\"", "x = to_string(.a)", "x.\"é\" = 2", "null", "true", "=", "==", "!=", "+", "-", "*", "/", "||", "&&", "??", "|", "|=", "!", "(", ")", "{", "}", "[", "]", ",", ":", ";",
             "\n", "if", "else", "abort", "return", "upcase", "del", "for_each", "->", "_", "#c\n", "..", "<", ">=", "\"", "'", "\\", "😀", "{{", "%" >>
ASSUME PrintT(<<"TOKENS", ToJson(Tokens)>>)
\* structured families the token sequences reach only rarely: closure calls with every shape of parameter list (arity too small, exact,
\* too large, placeholders, empty), and calls with missing / surplus / unknown / repeated arguments
CallHeads == << "for_each({\"a\": 1})", "for_each([1])", "filter([1, 2])", "map_keys({\"a\": 1})", "map_values({\"a\": 1})", "replace_with(\"ab\", r'a')",
                "upcase(\"a\")", "del(.a)", "x = for_each(.a)", ".out = filter(array!(.items))" >>
ParamLists == << "||", "| |", "|k|", "|k, v|", "|k, v, x|", "|_|", "|_, _|", "|_k, _v|", "|é|", "|k,|", "|, v|", "|k v|", "|1|", "|k, k|" >>
Bodies == << "{ true }", "{ k }", "{ }", "{ v = 1; v }", "{ abort }" >>
ClosureSources == { h \o " -> " \o p \o " " \o b : h \in {CallHeads[j] : j \in 1..Len(CallHeads)}, p \in {ParamLists[j] : j \in 1..Len(ParamLists)},
                                                   b \in {Bodies[j] : j \in 1..Len(Bodies)} }
ArityCalls == << "upcase()", "upcase(\"a\", \"b\")", "upcase(value: \"a\", value: \"b\")", "upcase(foo: \"a\")", "upcase(\"a\", foo: 1)", "for_each()", "for_each({}, {})",
                 "split(\"a\")", "split(\"a\", \",\", 1, 2)", "split(pattern: \",\")", "to_string!()", "nosuchfunction(1)", "nosuchfunction!()", "upcase!(\"a\")",
                 "del()", "del(1)", "del(.a, .b, .c)", "exists()", "exists(x)", "for_each({}) -> |k, v| { true } -> |k| { 1 }", "upcase(\"a\") -> |x| { x }" >>
ASSUME PrintT(<<"CLOSURE_SOURCES", ToJson(SetToSeq(ClosureSources))>>)
ASSUME PrintT(<<"ARITY_CALLS", ToJson(ArityCalls)>>)

VARIABLE dummy
Init == dummy = 0
Next == UNCHANGED dummy
Spec == Init /\ [][Next]_dummy
=============================================================================
