------------------------------ MODULE GenTokens ------------------------------
(* The token alphabet for source-text generation (C04 / C33): one representative per lexer token
   class, plus multi-byte and escape-heavy variants.  Printed once; the driver enumerates all
   sequences up to the tier's length and mutates corpus programs with the same tokens. *)
EXTENDS Sequences, Json, TLC
Tokens == << "x", "é", ".a", ".", "%m", ".\"b c\"", ".a[0]", ".a[-1]", "1", "1.5", "\"s\"", "\"é{{ x }}\"", "\"\\n\\t\\\\\"", "s'r'", "r'a'", "t'2021-01-01T00:00:00Z'",
             "\"\\u{}\"", "\"\\u{D800}\"", "\"\\u{1F600}é\"", "\"\\x\"", " ", "x.\"é\\\"\"", "x = to_string(.a)", "x.\"é\" = 2", "null", "true", "=", "==", "!=", "+", "-", "*", "/", "||", "&&", "??", "|", "|=", "!", "(", ")", "{", "}", "[", "]", ",", ":", ";",
             "\n", "if", "else", "abort", "return", "upcase", "del", "for_each", "->", "_", "#c\n", "..", "<", ">=", "\"", "'", "\\", "😀", "{{", "%" >>
ASSUME PrintT(<<"TOKENS", ToJson(Tokens)>>)
VARIABLE dummy
Init == dummy = 0
Next == UNCHANGED dummy
Spec == Init /\ [][Next]_dummy
=============================================================================
