------------------------------- MODULE MCCore -------------------------------
(***************************************************************************)
(* The abstract machine of VrlCore as an EXECUTABLE specification: TLC     *)
(* runs every program of a focus grammar of GenCore on every event, one    *)
(* machine step at a time, using the same Expect / ExitVars / FinishOf as  *)
(* the trace specification - plus a reference meaning for the leaves that  *)
(* the trace specification binds from the trace (queries, operators on     *)
(* small integers / strings / booleans, a handful of stdlib functions,     *)
(* closure iteration).                                                     *)
(*                                                                         *)
(* Checked on the model (all programs x events, every step):               *)
(*   Progress          the machine is never stuck before it is done        *)
(*   ControlIsFinal    once `abort` / `return` is raised no construct is   *)
(*                     entered and no variable or target location changes  *)
(*                     until the program ends with that outcome (C06, C07) *)
(*   ParamsScoped      closure parameters hold their old values after the  *)
(*                     call (C13)                                          *)
(* and every finished behaviour is printed (PREDICT) so that the harness   *)
(* can run the same program on the same event and the prediction be        *)
(* compared with what the real compiler + interpreter did (spec -> impl).  *)
(* A behaviour that needs a leaf meaning this module does not define is    *)
(* flagged `unmodelled` and not compared.                                  *)
(***************************************************************************)
EXTENDS GenCore

VARIABLES evt,     \* index of the event the program runs on
          k,       \* stack of frames
          vars,    \* variable store
          tgt,     \* [event, meta]
          fin,     \* "run" | finished outcome [r, ...]
          um,      \* TRUE when a leaf without a reference meaning was needed
          ctl      \* the control effect in flight ("none" | "abort" | "ret") and the state when it was raised

mvars == <<prog, evt, k, vars, tgt, fin, um, ctl>>

KeyOrder == <<"", "a", "b", "c", "err", "k", "m", "n", "o", "ok", "p", "q", "r", "x", "z">>
SortedKeys(m) == SelectSeq(KeyOrder, LAMBDA f : f \in DOMAIN m)
Items(v) == IF IsObj(v) THEN [j \in 1..Len(SortedKeys(v.m)) |-> [key |-> Str(SortedKeys(v.m)[j]), val |-> v.m[SortedKeys(v.m)[j]]]]
            ELSE IF IsArr(v) THEN [j \in 1..Len(v.e) |-> [key |-> IntV(j - 1), val |-> v.e[j]]]
            ELSE <<>>

Unk == [o |-> "unmodelled"]
IsUnk(x) == x.o = "unmodelled"

(* ---------- reference meaning of the leaves ---------- *)
SmallInts(a, b) == IsSmallInt(a) /\ IsSmallInt(b)
StrS(v) == IsBytes(v) /\ "s" \in DOMAIN v
OpVal(o, a, b) ==
  CASE o = "eq" -> OkO(Bool(a = b))
    [] o = "ne" -> OkO(Bool(a # b))
    [] o = "add" /\ SmallInts(a, b) -> OkO(IntV(a.n + b.n))
    [] o = "add" /\ StrS(a) /\ StrS(b) -> OkO(Str(a.s \o b.s))
    [] o = "add" /\ StrS(a) /\ IsNull(b) -> OkO(a)
    [] o = "add" /\ IsNull(a) /\ StrS(b) -> OkO(b)
    [] o = "sub" /\ SmallInts(a, b) -> OkO(IntV(a.n - b.n))
    [] o = "mul" /\ SmallInts(a, b) -> OkO(IntV(a.n * b.n))
    [] o \in {"lt", "le", "gt", "ge"} /\ SmallInts(a, b) ->
         OkO(Bool(CASE o = "lt" -> a.n < b.n [] o = "le" -> a.n <= b.n [] o = "gt" -> a.n > b.n [] o = "ge" -> a.n >= b.n))
    [] o = "merge" /\ IsObj(a) /\ IsObj(b) -> OkO(Obj([f \in (DOMAIN a.m) \cup (DOMAIN b.m) |-> IF f \in DOMAIN b.m THEN b.m[f] ELSE a.m[f]]))
    [] o \in {"add", "sub", "mul"} /\ (IsBool(a) \/ IsBool(b) \/ IsContainer(a) \/ IsContainer(b)) -> ErrO("?")
    [] OTHER -> Unk

StrToInt == [s \in {"12", "0", "-7"} |-> CASE s = "12" -> 12 [] s = "0" -> 0 [] s = "-7" -> -7]
FnVal(f, args) ==
  LET a == args[1] IN
  CASE f = "to_int" /\ IsSmallInt(a) -> OkO(a)
    [] f = "to_int" /\ IsBool(a) -> OkO(IntV(IF a.v THEN 1 ELSE 0))
    [] f = "to_int" /\ IsNull(a) -> OkO(IntV(0))
    [] f = "to_int" /\ StrS(a) /\ a.s \in DOMAIN StrToInt -> OkO(IntV(StrToInt[a.s]))
    [] f = "to_int" /\ StrS(a) /\ a.s \in {"x", "s", "", "a"} -> ErrO("?")
    [] f = "to_int" /\ IsContainer(a) -> ErrO("?")
    [] f = "to_string" /\ StrS(a) -> OkO(a)
    [] f = "to_string" /\ IsBool(a) -> OkO(Str(IF a.v THEN "true" ELSE "false"))
    [] f = "to_string" /\ IsNull(a) -> OkO(Str(""))
    [] f = "to_string" /\ IsSmallInt(a) /\ a.n >= 0 -> OkO(Str(ToString(a.n)))
    [] f = "to_string" /\ IsContainer(a) -> ErrO("?")
    [] f = "upcase" /\ StrS(a) /\ a.s \in {"s", "a", "x", ""} -> OkO(Str(CASE a.s = "s" -> "S" [] a.s = "a" -> "A" [] a.s = "x" -> "X" [] a.s = "" -> ""))
    [] f = "upcase" /\ ~IsBytes(a) -> ErrO("?")
    [] f = "length" /\ IsArr(a) -> OkO(IntV(Len(a.e)))
    [] f = "length" /\ IsObj(a) -> OkO(IntV(Cardinality(DOMAIN a.m)))
    [] f = "object" /\ IsObj(a) -> OkO(a)
    [] f = "object" /\ ~IsObj(a) -> ErrO("?")
    [] f = "array" /\ IsArr(a) -> OkO(a)
    [] f = "array" /\ ~IsArr(a) -> ErrO("?")
    [] f = "merge" /\ Len(args) = 2 /\ IsObj(a) /\ IsObj(args[2]) -> OpVal("merge", a, args[2])
    [] OTHER -> Unk

RECURSIVE KeepVals(_, _, _)
KeepVals(its, vals, j) == IF j > Len(its) THEN <<>> ELSE (IF vals[j].v THEN <<its[j].val>> ELSE <<>>) \o KeepVals(its, vals, j + 1)

\* value of a finished closure-taking call from the values of its iterations
IterVal(f) ==
  LET n == f.n  coll == f.acc[1].v  its == Items(coll)  vals == f.vals IN
  CASE n.f = "for_each" -> OkO(Null)
    [] n.f = "map_values" /\ IsObj(coll) -> OkO(Obj([fld \in DOMAIN coll.m |-> vals[CHOOSE j \in 1..Len(its) : its[j].key.s = fld]]))
    [] n.f = "map_values" /\ IsArr(coll) -> OkO(Arr(vals))
    [] n.f = "filter" /\ (\A j \in 1..Len(vals) : IsBool(vals[j])) ->
         (IF IsObj(coll) THEN OkO(Obj([fld \in {its[j].key.s : j \in {i \in 1..Len(its) : vals[i].v}} |-> coll.m[fld]]))
          ELSE OkO(Arr(KeepVals(its, vals, 1))))
    [] OTHER -> Unk

\* default stored in `ok` when the right-hand side of `ok, err = e` fails: decided by the compiler from
\* e's type; here from e's shape
RECURSIVE RhsDefault(_)
RhsDefault(e) == CASE e.k = "call" /\ e.f = "to_int" -> IntV(0)
                   [] e.k = "call" /\ e.f = "to_string" -> Str("")
                   [] e.k = "call" /\ e.f = "to_bool" -> Bool(FALSE)
                   [] e.k = "block" -> RhsDefault(e.s[Len(e.s)])
                   [] OTHER -> Null

Root(pre) == IF pre = "event" THEN tgt.event ELSE tgt.meta
SetRoot(pre, v) == IF pre = "event" THEN [tgt EXCEPT !.event = v] ELSE [tgt EXCEPT !.meta = v]

Top == k[Len(k)]
IsIter(f) == f.n.k = "call" /\ f.n.cls = "iter"
InBody(f) == IsIter(f) /\ Len(f.acc) >= Len(f.n.a)

\* outcome of a construct whose Expect leaves the value open
LeafOutcome(f) ==
  LET n == f.n IN
  CASE n.k = "op" -> OpVal(n.o, f.acc[1].v, f.acc[2].v)
    [] n.k = "call" /\ n.cls = "pure" -> FnVal(n.f, Vals(f.acc))
    [] n.k = "call" /\ n.cls = "exists" -> OkO(Bool(~IsNone(Get(Root(n.q.pre), n.q.p))))
    [] n.k = "call" /\ n.cls = "iter" -> IterVal(f)
    [] n.k = "if" -> ErrO("?")          \* non-boolean predicate
    [] n.k = "not" -> ErrO("?")
    [] n.k = "abort" -> ErrO("?")
    [] OTHER -> Unk

Absorb(f, out) ==
  LET n == f.n  acc2 == Append(f.acc, out) IN
  IF InBody(f)
  THEN IF out.o = "ret" \/ (IsOk(out) /\ f.j + 1 = Len(n.cl.s))
       THEN [f EXCEPT !.acc = acc2, !.it = @ + 1, !.j = 0, !.vals = Append(@, out.v)]
       ELSE [f EXCEPT !.acc = acc2, !.j = @ + 1]
  ELSE [f EXCEPT !.acc = acc2]

\* closure parameters: bound when an iteration starts, restored when the call exits
BindParams(f) ==
  LET it == Items(f.acc[1].v)[f.it + 1]  ps == f.n.cl.p IN
  IF Len(ps) = 2
  THEN LET v1 == IF ps[1] = "" THEN vars ELSE SetVar(vars, ps[1], it.key) IN
       IF ps[2] = "" THEN v1 ELSE SetVar(v1, ps[2], it.val)
  ELSE IF ps[1] = "" THEN vars ELSE SetVar(vars, ps[1], IF f.n.f = "map_keys" THEN it.key ELSE it.val)
RestoreParams(f, vs) ==
  LET ps == {f.n.cl.p[j] : j \in 1..Len(f.n.cl.p)} \ {""} IN
  [x \in ((DOMAIN vs) \ ps) \cup (ps \cap DOMAIN f.sv) |-> IF x \in ps THEN f.sv[x] ELSE vs[x]]

MCInit == /\ prog \in Progs
        /\ evt \in 1..Len(Events)
        /\ k = << NewFrame([k |-> "prog", s |-> prog], <<>>) >>
        /\ vars = <<>>
        /\ tgt = [event |-> Events[evt].ev, meta |-> Events[evt].meta]
        /\ fin = [r |-> "run"] /\ um = FALSE
        /\ ctl = [o |-> "none"]

Step ==
  /\ fin.r = "run"
  /\ UNCHANGED <<prog, evt>>
  /\ LET f == Top  x == Expect(f, vars) IN
     CASE x.a = "enter" ->
            LET vs == IF IsIter(f) /\ InBody(f) /\ f.j = 0 THEN BindParams(f) ELSE vars IN
            /\ k' = Append(k, NewFrame(x.n, vs))
            /\ vars' = vs
            /\ UNCHANGED <<tgt, fin, um, ctl>>
       [] x.a = "target" ->
            LET root == Root(x.pre) IN
            /\ (CASE x.op = "get" ->
                      /\ k' = [k EXCEPT ![Len(k)] = [f EXCEPT !.t = @ + 1, !.tv = GetOrNull(root, x.p)]]
                      /\ tgt' = tgt
                  [] x.op = "rem" ->
                      LET r == Remove(root, x.p, DelCompact(f)) IN
                      /\ k' = [k EXCEPT ![Len(k)] = [f EXCEPT !.t = @ + 1, !.tv = IF IsNone(r.rem) THEN Null ELSE r.rem]]
                      /\ tgt' = SetRoot(x.pre, r.val)
                  [] x.op = "ins" ->
                      LET v == IF f.n.k = "asg" THEN f.acc[1].v
                               ELSE \* asg2: which external target is this, and which case
                                    LET exts == SelectSeq(<<[g |-> f.n.ok, w |-> "ok"], [g |-> f.n.er, w |-> "er"]>>, LAMBDA y : y.g.tk = "ext")
                                        w == exts[f.t + 1].w IN
                                    IF IsOk(f.acc[1]) THEN (IF w = "ok" THEN f.acc[1].v ELSE Null)
                                    ELSE (IF w = "ok" THEN RhsDefault(f.n.e) ELSE Str(f.acc[1].m))
                      IN /\ k' = [k EXCEPT ![Len(k)] = [f EXCEPT !.t = @ + 1]]
                         /\ tgt' = SetRoot(x.pre, Insert(root, x.p, v)))
            /\ UNCHANGED <<vars, fin, um, ctl>>
       [] x.a = "exit" ->
            LET out == IF x.hv THEN x.v ELSE IF x.allow = {"err"} THEN ErrO("?") ELSE LeafOutcome(f)
                unk == IsUnk(out) \/ (f.n.k = "asg2" /\ Len(f.acc) = 1 /\ f.acc[1].o = "err")
                out2 == IF IsUnk(out) THEN ErrO("?") ELSE out
                vs1 == IF f.n.k = "asg2" /\ IsOk(out2) /\ Len(f.acc) = 1 /\ f.acc[1].o = "err"
                       THEN StoreTarget(StoreTarget(vars, f.n.ok, RhsDefault(f.n.e)), f.n.er, Str(f.acc[1].m))
                       ELSE ExitVars(f, out2, vars)
                vs2 == IF f.n.k = "call" /\ "cl" \in DOMAIN f.n THEN RestoreParams(f, vs1) ELSE vs1
            IN
            IF Len(k) = 1
            THEN /\ fin' = FinishOf(out2) /\ k' = <<>> /\ vars' = vs2 /\ um' = (um \/ unk)
                 /\ UNCHANGED <<tgt, ctl>>
            ELSE /\ k' = Append(SubSeq(k, 1, Len(k) - 2), Absorb(k[Len(k) - 1], out2))
                 /\ vars' = vs2
                 /\ um' = (um \/ unk)
                 /\ ctl' = IF IsCtl(out2) /\ ctl.o = "none" /\ ~(\E j \in 1..(Len(k) - 1) : InBody(k[j]) /\ out2.o = "ret")
                           THEN [o |-> out2.o, vars |-> vs2, tgt |-> tgt] ELSE ctl
                 /\ UNCHANGED <<tgt, fin>>

Done == fin.r # "run" /\ UNCHANGED mvars
MCNext == Step \/ Done
MCSpec == MCInit /\ [][MCNext]_mvars

(* ---------- properties of the model ---------- *)
\* the machine can always move until the program is finished
Progress == fin.r = "run" => ENABLED Step

\* C06 / C07: once a control effect escapes towards the program level, no variable (other than closure
\* parameters being restored) and no target location changes any more, and the run ends with it
ControlIsFinal ==
  ctl.o # "none" =>
     /\ tgt = ctl.tgt
     /\ (fin.r # "run" => fin.r = (IF ctl.o = "abort" THEN "abort" ELSE "ok"))

\* C13: when the program is over no pure closure parameter is left in the store. A name is a pure parameter when it is a
\* parameter of some closure of the program and no assignment anywhere in the program targets it (an assignment to `k` in a
\* closure whose first parameter is the placeholder `_` creates an ordinary variable, which legitimately stays).
ChildSeq(n) ==
  CASE n.k \in {"lit", "var", "qv", "q", "noop"} -> <<>>
    [] n.k \in {"group", "not", "ret", "asg", "asg2"} -> <<n.e>>
    [] n.k = "block" -> n.s
    [] n.k = "arr" -> n.e
    [] n.k = "obj" -> n.es
    [] n.k = "if" -> n.c \o n.t \o (IF n.he THEN n.e ELSE <<>>)
    [] n.k = "op" -> <<n.l, n.r>>
    [] n.k = "abort" -> IF n.hm THEN <<n.m>> ELSE <<>>
    [] n.k = "call" -> n.a \o (IF "cl" \in DOMAIN n THEN n.cl.s ELSE <<>>)
    [] OTHER -> <<>>
RECURSIVE AssignedIn(_)
AssignedIn(n) ==
  (IF n.k = "asg" /\ n.tg.tk = "var" THEN {n.tg.x}
   ELSE IF n.k = "asg2" THEN (IF n.ok.tk = "var" THEN {n.ok.x} ELSE {}) \cup (IF n.er.tk = "var" THEN {n.er.x} ELSE {})
   ELSE {})
  \cup UNION {AssignedIn(ChildSeq(n)[j]) : j \in 1..Len(ChildSeq(n))}
RECURSIVE ParamsIn(_)
ParamsIn(n) ==
  (IF n.k = "call" /\ "cl" \in DOMAIN n THEN {n.cl.p[j] : j \in 1..Len(n.cl.p)} ELSE {})
  \cup UNION {ParamsIn(ChildSeq(n)[j]) : j \in 1..Len(ChildSeq(n))}
PureParams == (UNION {ParamsIn(prog[j]) : j \in 1..Len(prog)}) \ ((UNION {AssignedIn(prog[j]) : j \in 1..Len(prog)}) \cup {""})
ParamsScoped == (fin.r = "ok") => \A x \in PureParams : x \notin DOMAIN vars

\* one line per finished behaviour, for the replay
Predict == fin.r # "run" =>
  PrintT(<<"PREDICT", ToJson([ast |-> prog, evt |-> evt, fin |-> fin, vars |-> vars, ev |-> tgt.event, meta |-> tgt.meta, unmodelled |-> um])>>)
=============================================================================
