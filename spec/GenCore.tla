------------------------------ MODULE GenCore ------------------------------
(***************************************************************************)
(* Program generation inside the specification (DESIGN 2.4): TLC           *)
(* enumerates, exhaustively within the bounds below, the programs of a     *)
(* per-property *focus grammar* and prints each as one JSON line           *)
(* ("REPLAY").  The harness renders them to VRL source, compiles and runs  *)
(* them with the real compiler/interpreter on every event of `Events`, and *)
(* the recorded executions are validated by TraceCore.                     *)
(*                                                                         *)
(* Focus \in {"C06","C07","C08","C09","C13","C01","C12","C16"}; Tier \in   *)
(* {"quick","thorough"} widens the atom sets / nesting.                    *)
(***************************************************************************)
EXTENDS VrlCore, Json, SequencesExt

CONSTANTS Focus, Tier

VARIABLE prog


(* ---------- AST constructors ---------- *)
Lit(v)        == [k |-> "lit", v |-> v]
Var(x)        == [k |-> "var", x |-> x]
QV(x, p)      == [k |-> "qv", x |-> x, p |-> p]
Q(p)          == [k |-> "q", pre |-> "event", p |-> p]
QM(p)         == [k |-> "q", pre |-> "meta", p |-> p]
Group(e)      == [k |-> "group", e |-> e]
Block(s)      == [k |-> "block", s |-> s]
ArrN(e)       == [k |-> "arr", e |-> e]
ObjN(ks, es)  == [k |-> "obj", ks |-> ks, es |-> es]
If(c, t)      == [k |-> "if", c |-> c, t |-> t, he |-> FALSE, e |-> <<>>]
IfElse(c, t, e) == [k |-> "if", c |-> c, t |-> t, he |-> TRUE, e |-> e]
Op(o, l, r)   == [k |-> "op", o |-> o, l |-> l, r |-> r]
Not(e)        == [k |-> "not", e |-> e]
TVar(x)       == [tk |-> "var", x |-> x, p |-> <<>>]
TVarP(x, p)   == [tk |-> "var", x |-> x, p |-> p]
TExt(p)       == [tk |-> "ext", pre |-> "event", p |-> p]
TMeta(p)      == [tk |-> "ext", pre |-> "meta", p |-> p]
TNoop         == [tk |-> "noop"]
Asg(tg, e)    == [k |-> "asg", tg |-> tg, e |-> e]
Asg2(ok, er, e) == [k |-> "asg2", ok |-> ok, er |-> er, e |-> e]
Abort         == [k |-> "abort", hm |-> FALSE]
AbortM(m)     == [k |-> "abort", hm |-> TRUE, m |-> m]
Ret(e)        == [k |-> "ret", e |-> e]
Call(f, a)    == [k |-> "call", f |-> f, cls |-> "pure", bang |-> FALSE, a |-> a]
CallB(f, a)   == [k |-> "call", f |-> f, cls |-> "pure", bang |-> TRUE, a |-> a]
Del(q)        == [k |-> "call", f |-> "del", cls |-> "del", bang |-> FALSE, a |-> <<>>, q |-> q]
\* del(path, true): compacting deletion
DelC(q)       == [k |-> "call", f |-> "del", cls |-> "del", bang |-> FALSE, a |-> <<[k |-> "lit", v |-> Bool(TRUE)]>>, q |-> q]
Exists(q)     == [k |-> "call", f |-> "exists", cls |-> "exists", bang |-> FALSE, a |-> <<>>, q |-> q]
Iter(f, coll, ps, body) ==
  [k |-> "call", f |-> f, cls |-> "iter", bang |-> FALSE, a |-> <<coll>>, cl |-> [p |-> ps, s |-> body]]

pa == <<F("a")>>   pb == <<F("b")>>   pc == <<F("c")>>   pz == <<F("z")>>   po == <<F("o")>>

Thorough == Tier = "thorough"

(* ---------- shared atoms ---------- *)
\* values of every kind for the left of || / && / ?? and for conditions
ValAtoms == {Lit(Null), Lit(Bool(TRUE)), Lit(Bool(FALSE)), Lit(IntV(0)), Lit(Str("s")), Q(pa), Var("x")}
           \cup (IF Thorough THEN {Lit(Str("")), Lit(IntV(1)), ArrN(<<>>), ObjN(<<>>, <<>>), Q(pb), QV("x", pa)} ELSE {})

\* operands whose evaluation is observable (they write a variable, the event or metadata)
SideAtoms == {Group(Asg(TVar("y"), Lit(IntV(1)))), Group(Asg(TExt(pc), Lit(IntV(2)))),
              Block(<<Del(TExt(pa)), Lit(Bool(TRUE))>>)}
            \cup (IF Thorough THEN {Group(Asg(TMeta(pc), Lit(Str("m")))),
                                    Block(<<Asg(TVar("y"), Lit(Bool(FALSE))), Var("y")>>),
                                    Group(Asg(TVar("x"), Lit(Null)))} ELSE {})

\* fallible expressions (fail or succeed depending on the event)
FailAtoms == {Call("to_int", <<Q(pa)>>), Call("to_int", <<Q(pb)>>),
              Block(<<Asg(TExt(pc), Lit(IntV(3))), Call("to_int", <<Q(pa)>>)>>)}
            \cup (IF Thorough THEN {Op("div", Lit(IntV(1)), Q(pb)), Call("upcase", <<Q(pa)>>),
                                    Block(<<Asg(TVar("y"), Lit(IntV(4))), Call("to_string", <<Q(pb)>>)>>)} ELSE {})

Prelude == <<Asg(TVar("x"), Lit(IntV(5))), Asg(TVar("y"), Lit(IntV(0)))>>
Observe == <<ArrN(<<Var("y"), Q(pc), Var("x")>>)>>

(* ---------- C09: short circuit and conditionals ---------- *)
BoolOps == {"or", "and"}
Conds == {Lit(Bool(TRUE)), Lit(Bool(FALSE)), Op("eq", Q(pa), Lit(Bool(TRUE))), Exists(TExt(pa)),
          Not(Op("eq", Q(pa), Lit(Null)))}
Sc1 == {Op(o, l, r) : o \in BoolOps, l \in ValAtoms, r \in SideAtoms}
Sc2 == {Op(o, Group(a), r) : o \in BoolOps, a \in {Op(o2, l, r2) : o2 \in BoolOps, l \in {Lit(Null), Lit(Bool(TRUE)), Q(pa)}, r2 \in SideAtoms}, r \in {Group(Asg(TVar("w"), Lit(IntV(9))))}}
Ifs == {If(<<c>>, <<t>>) : c \in Conds, t \in SideAtoms}
       \cup {IfElse(<<c>>, <<t>>, <<e>>) : c \in Conds, t \in SideAtoms, e \in SideAtoms}
       \cup {IfElse(<<Asg(TVar("p"), Lit(IntV(1))), c>>, <<t, Lit(IntV(1))>>, <<Lit(IntV(2))>>) : c \in Conds, t \in SideAtoms}
\* `&&` / `||` on non-boolean operands is fallible: emit plain and `?? null`-wrapped variants
\* (the compiler accepts exactly one of them)
Wrap(e) == {e, Op("err", e, Lit(Null))}
Stmts_C09 == UNION {Wrap(e) : e \in Sc1 \cup (IF Thorough THEN Sc2 ELSE {})} \cup Ifs
Progs_C09 == {Prelude \o <<s>> \o Observe : s \in Stmts_C09}

(* ---------- C08: ?? and ok, err = ---------- *)
Coal == {Op("err", l, r) : l \in FailAtoms, r \in SideAtoms \cup {Lit(IntV(7))}}
        \cup {Op("err", l, Group(Op("err", l2, Lit(Str("d"))))) : l \in FailAtoms, l2 \in FailAtoms}
OkTargets  == {TVar("ok"), TExt(<<F("ok")>>)} \cup (IF Thorough THEN {TNoop, TVarP("x", pa), TMeta(<<F("ok")>>)} ELSE {})
ErrTargets == {TVar("err"), TExt(<<F("err")>>)} \cup (IF Thorough THEN {TNoop} ELSE {})
Typed == {Call("to_int", <<Q(pa)>>), Call("to_string", <<Q(pa)>>), Call("to_bool", <<Q(pa)>>),
          Call("to_float", <<Q(pa)>>), Call("parse_json", <<Q(pa)>>), Call("array", <<Q(pa)>>),
          Call("object", <<Q(pa)>>), Call("to_timestamp", <<Q(pa)>>),
          \* exact collection kinds with known members: the default {} / [] must still be in ok's type
          ObjN(<<"n">>, <<Call("to_int", <<Q(pa)>>)>>), ArrN(<<Call("to_int", <<Q(pa)>>)>>),
          Call("parse_url", <<Q(pa)>>)}
Inf == {Asg2(o, e, x) : o \in OkTargets, e \in ErrTargets, x \in FailAtoms \cup Typed}
ObserveOk == <<ArrN(<<Var("ok"), QV("ok", <<F("n")>>), QV("ok", <<I(0)>>), Var("err"), Q(<<F("ok")>>), Q(<<F("err")>>), Q(pc)>>)>>
Progs_C08 == {Prelude \o <<s>> \o Observe : s \in Coal}
             \cup {Prelude \o <<Asg(TVar("ok"), Lit(Null)), Asg(TVar("err"), Lit(Null)), s>> \o ObserveOk : s \in Inf}

(* ---------- C06 / C07: control effects at every nesting position ---------- *)
Ctls == IF Focus = "C06" THEN {Ret(Lit(IntV(5))), Ret(Q(pb))}
        ELSE {Abort, AbortM(Lit(Str("m")))}
Guarded(c) == If(<<Op("eq", Q(pa), Lit(Bool(TRUE)))>>, <<c>>)
\* a block that may raise the control effect and otherwise yields `tail`
CtlBlocks(tail) == {Block(<<g, tail>>) : g \in {Guarded(c) : c \in Ctls}}
                   \cup (IF Thorough THEN {Block(<<Asg(TExt(pc), Lit(IntV(1))), c>>) : c \in Ctls} ELSE {})
BInt  == CtlBlocks(Lit(IntV(1)))
BStr  == CtlBlocks(Lit(Str("s")))
BBool == CtlBlocks(Lit(Bool(TRUE)))
BFail == CtlBlocks(Call("to_int", <<Q(pb)>>))
BObj  == CtlBlocks(ObjN(<<"k">>, <<Lit(IntV(1))>>))
After == Asg(TExt(pz), Lit(IntV(1)))

Ctx1 ==
     BInt
  \cup {Op("err", b, Lit(IntV(7))) : b \in BFail}
  \cup {Op("err", Call("to_int", <<Q(pb)>>), b) : b \in BInt}
  \cup {Op("or", b, Lit(IntV(7))) : b \in BInt} \cup {Op("or", Lit(Null), b) : b \in BInt}
  \cup {Op("and", b, Lit(Bool(TRUE))) : b \in BBool} \cup {Op("and", Lit(Bool(TRUE)), b) : b \in BBool}
  \cup {Op("add", b, Lit(IntV(1))) : b \in BInt} \cup {Op("add", Lit(IntV(1)), b) : b \in BInt}
  \cup {Op("eq", b, Lit(IntV(1))) : b \in BInt}
  \cup {Asg(TVar("v"), b) : b \in BInt} \cup {Asg(TExt(pc), b) : b \in BInt}
  \cup {Asg2(TVar("ok"), TVar("err"), b) : b \in BFail}
  \cup {Asg2(TExt(pc), TVar("err"), b) : b \in BFail}
  \cup {ArrN(<<Lit(IntV(0)), b, Group(Asg(TVar("y"), Lit(IntV(1))))>>) : b \in BInt}
  \cup {ObjN(<<"j", "k">>, <<b, Group(Asg(TVar("y"), Lit(IntV(1))))>>) : b \in BInt}
  \cup {IfElse(<<b>>, <<Lit(IntV(1))>>, <<Lit(IntV(2))>>) : b \in BBool}
  \cup {If(<<Lit(Bool(TRUE))>>, <<c, Asg(TVar("y"), Lit(IntV(1)))>>) : c \in Ctls}
  \cup {IfElse(<<Lit(Bool(FALSE))>>, <<Lit(IntV(1))>>, <<g, Lit(IntV(2))>>) : g \in {Guarded(c) : c \in Ctls}}
  \cup {Call("upcase", <<b>>) : b \in BStr} \cup {Call("to_string", <<b>>) : b \in BInt}
  \cup {Call("length", <<b>>) : b \in BStr}
  \cup {Call("merge", <<ObjN(<<>>, <<>>), b>>) : b \in BObj}
  \cup {Not(b) : b \in BBool}
  \cup {AbortM(b) : b \in BStr}
  \cup {Ret(b) : b \in BInt}
  \cup {Group(b) : b \in BInt}
  \cup {Block(<<b, Asg(TVar("y"), Lit(IntV(1)))>>) : b \in BInt}

\* closures: the control effect inside the body of every closure-taking function, over
\* objects and arrays
Colls == {ObjN(<<"p", "q">>, <<Lit(IntV(1)), Lit(IntV(2))>>), ArrN(<<Lit(IntV(1)), Lit(IntV(2))>>),
          CallB("object", <<Q(po)>>), CallB("array", <<Q(po)>>)}
GuardV(c) == If(<<Op("eq", Var("v"), Lit(IntV(1)))>>, <<c>>)
Closures ==
  {Iter("for_each", coll, <<"k", "v">>, <<g, Asg(TExt(pc), Var("v"))>>) : coll \in Colls, g \in {GuardV(c) : c \in Ctls}}
  \cup {Iter("map_values", coll, <<"v">>, <<g, Lit(IntV(0))>>) : coll \in Colls, g \in {GuardV(c) : c \in Ctls}}
  \cup {Iter("filter", coll, <<"k", "v">>, <<If(<<Op("eq", Var("v"), Lit(IntV(1)))>>, <<c>>), Lit(Bool(TRUE))>>)
          : coll \in Colls, c \in (IF Focus = "C06" THEN {Ret(Lit(Bool(FALSE)))} ELSE Ctls)}
  \cup {Iter("map_keys", ObjN(<<"p", "q">>, <<Lit(IntV(1)), Lit(IntV(2))>>), <<"k">>,
             <<If(<<Op("eq", Var("k"), Lit(Str("p")))>>, <<c>>), Lit(Str("n"))>>)
          : c \in (IF Focus = "C06" THEN {Ret(Lit(Str("r")))} ELSE Ctls)}

\* nesting two contexts (thorough): the block sits inside an inner context which is grouped
\* and placed in an outer one
Ctx2 == {Op("err", Group(i), Lit(IntV(7))) : i \in {Op("add", b, Lit(IntV(1))) : b \in BFail}}
        \cup {Asg(TVar("v"), Group(Op("or", b, Lit(IntV(1))))) : b \in BInt}
        \cup {ArrN(<<Call("to_string", <<b>>)>>) : b \in BInt}
        \cup {Asg2(TVar("ok"), TVar("err"), Group(Op("add", b, Lit(IntV(1))))) : b \in BFail}
        \cup {Op("err", Block(<<Asg(TVar("v"), b)>>), Lit(IntV(7))) : b \in BFail}

CtlStmts == Ctx1 \cup Closures \cup (IF Thorough THEN Ctx2 ELSE {})
Progs_Ctl == {Prelude \o <<s, After>> : s \in CtlStmts}

(* ---------- C13: closure parameter scoping ---------- *)
Bodies == {<<Asg(TExt(pc), Var("v"))>>,                                   \* succeeds
           <<Op("err", Call("to_int", <<Q(pz)>>), Lit(Null))>>,            \* handled failure
           <<CallB("to_int", <<Var("v")>>)>>}                              \* fails on non-numeric item
          \cup (IF Thorough THEN {<<Asg(TVar("k"), Lit(IntV(9))), Var("v")>>,     \* assigns its own parameter
                                  <<Asg(TVar("x"), Var("v"))>>} ELSE {})
Colls13 == {ObjN(<<"p", "q">>, <<Lit(IntV(1)), Lit(Str("s"))>>), ArrN(<<Lit(IntV(1)), Lit(Str("s"))>>),
            ArrN(<<>>), CallB("object", <<Q(po)>>), CallB("array", <<Q(po)>>)}
\* outer variable named like a parameter (shadowing) or not
Shadow == {<<>>, <<Asg(TVar("k"), Lit(Str("outer"))), Asg(TVar("v"), Lit(Str("outer")))>>}
          \cup (IF Thorough THEN {<<Asg(TVar("v"), Lit(IntV(7)))>>} ELSE {})
\* "" is the placeholder parameter `_` (bound to nothing)
Iter13(coll, body) ==
  {Iter("for_each", coll, <<"k", "v">>, body),
   Iter("for_each", coll, <<"", "v">>, body),
   Iter("filter", coll, <<"k", "v">>, body \o <<Lit(Bool(TRUE))>>),
   Iter("filter", coll, <<"", "v">>, body \o <<Lit(Bool(TRUE))>>),
   Iter("map_values", coll, <<"v">>, body)}
Calls13 == UNION {Iter13(coll, body) : coll \in Colls13, body \in Bodies}
\* a failing closure call is coalesced or captured so the program goes on and can observe
Handle(c) == {c, Op("err", c, Lit(Null)), Asg2(TVar("ok"), TVar("err"), c)}
Progs_C13 == {sh \o <<h>> \o <<ArrN(<<Var("k"), Var("v")>>)>> : sh \in Shadow, h \in UNION {Handle(c) : c \in Calls13}}
             \cup {sh \o <<h>> : sh \in Shadow, h \in UNION {Handle(c) : c \in Calls13}}

(* ---------- C01 / C02 / C12 / C16: typing, fallibility, constants, program info ---------- *)
\* A program is: prelude; two (thorough: three) statements that change what the compiler knows
\* about variables / the event; one "user" statement whose acceptance depends on that
\* knowledge; an observation of everything.  Run on every event that conforms to the
\* external kinds the program is compiled against.
KAnyInf == [inf |-> [p |-> <<"bytes", "integer", "float", "boolean", "timestamp", "regex", "null", "undefined">>, arr |-> TRUE, obj |-> TRUE]]
KAnyObject == [p |-> <<>>, obj |-> [kn |-> <<>>, un |-> KAnyInf]]
KP(ps) == [p |-> ps]
KNoUnknown == [x |-> KP(<<"undefined">>)]
\* { a: integer, c: boolean, s: string, o: { p: integer, * : any } } and nothing else
KTyped == [p |-> <<>>, obj |-> [kn |-> [a |-> KP(<<"integer">>), c |-> KP(<<"boolean">>), s |-> KP(<<"bytes">>),
                                        o |-> [p |-> <<>>, obj |-> [kn |-> [p |-> KP(<<"integer">>)], un |-> KAnyInf]]],
                                un |-> KNoUnknown]]
Exts == {[name |-> "any", target |-> KAnyObject, meta |-> KAnyObject],
         [name |-> "typed", target |-> KTyped, meta |-> KAnyObject]}

EvPool == {[ev |-> EmptyObj, meta |-> EmptyObj],
           [ev |-> Obj([a |-> IntV(3), c |-> Bool(TRUE), s |-> Str("x"), o |-> Obj([p |-> IntV(1)])]), meta |-> EmptyObj],
           [ev |-> Obj([a |-> IntV(0), c |-> Bool(FALSE), s |-> Str(""), o |-> Obj([p |-> IntV(2), q |-> Str("w")])]), meta |-> Obj([m |-> IntV(1)])],
           [ev |-> Obj([a |-> Str("s"), c |-> Bool(TRUE)]), meta |-> EmptyObj],
           [ev |-> Obj([a |-> Obj([a |-> IntV(1)]), c |-> Null, s |-> IntV(1)]), meta |-> EmptyObj],
           [ev |-> Obj([a |-> Arr(<<IntV(1), Str("s")>>), c |-> Bool(FALSE), b |-> Obj([c |-> IntV(1)])]), meta |-> EmptyObj]}

PreludeT == <<Asg(TVar("x"), Lit(IntV(5))), Asg(TVar("y"), Lit(Str("y")))>>
CondC == Op("eq", Q(pc), Lit(Bool(TRUE)))
Setters ==
  {Asg(TVar("x"), Lit(Str("s"))), Asg(TVar("x"), Q(pa)), Asg(TVar("x"), Lit(Null)),
   Asg(TVar("x"), ObjN(<<"a", "b">>, <<Lit(IntV(2)), Lit(Str("s"))>>)),
   Asg(TVar("x"), ArrN(<<Lit(IntV(1)), Lit(Str("s"))>>)),
   Asg(TVarP("x", pa), Lit(IntV(2))), Asg(TVarP("x", <<I(1)>>), Lit(Str("t"))),
   Asg(TExt(pa), Var("x")), Asg(TExt(<<F("b"), F("c")>>), Lit(IntV(1))), Asg(TExt(<<F("a"), I(1)>>), Lit(Str("s"))),
   Asg(TMeta(<<F("m")>>), Var("x")),
   If(<<CondC>>, <<Asg(TVar("x"), Lit(Str("t")))>>),
   IfElse(<<CondC>>, <<Asg(TVar("x"), Lit(IntV(2)))>>, <<Asg(TVar("x"), Lit(Null))>>),
   If(<<CondC>>, <<Asg(TExt(pa), Lit(Str("t")))>>),
   \* a constant on one path only / on neither path
   If(<<CondC>>, <<Asg(TVar("x"), Q(pa))>>), Asg(TVar("x"), Lit(Bool(FALSE))),
   IfElse(<<CondC>>, <<Asg(TVar("x"), Q(pa))>>, <<Asg(TVar("x"), Lit(Bool(FALSE)))>>),
   Del(TVarP("x", pa)), Del(TExt(pa)), Del(TExt(<<F("b"), F("c")>>)),
   Asg(TVar("y"), Var("x")), Asg(TVar("y"), Op("mul", Lit(IntV(2)), Lit(IntV(3)))),
   Asg(TVar("y"), Lit(IntV(0))),
   Iter("for_each", ObjN(<<"p">>, <<Lit(IntV(1))>>), <<"k", "v">>, <<Asg(TVar("x"), Var("v"))>>),
   Iter("for_each", ArrN(<<>>), <<"k", "v">>, <<Asg(TVar("x"), Lit(Str("c")))>>),
   Op("or", Q(pc), Group(Asg(TVar("x"), Lit(Str("o"))))),
   Op("err", Call("to_int", <<Q(pa)>>), Group(Asg(TVar("x"), Lit(Bool(TRUE))))),
   Asg2(TVar("x"), TVar("y"), Call("to_int", <<Q(pa)>>)),
   \* infallible assignment of a fallible collection with required members: on failure `ok` receives the empty collection
   Asg2(TVar("x"), TVar("y"), ArrN(<<Call("to_int", <<Q(pa)>>), Lit(IntV(1))>>)),
   Asg2(TVar("x"), TVar("y"), ObjN(<<"n">>, <<Call("to_int", <<Q(pa)>>)>>)),
   Asg2(TExt(pa), TVar("y"), ObjN(<<"n">>, <<Call("to_int", <<Q(<<F("s")>>)>>)>>)),
   Asg(TVar("x"), Op("merge", ObjN(<<"a">>, <<Lit(IntV(1))>>), ObjN(<<"b">>, <<Q(pa)>>)))}
Users ==
  {Asg(TVar("z"), Op("add", Var("x"), Lit(IntV(1)))), Asg(TVar("z"), Call("upcase", <<Var("x")>>)),
   Asg(TVar("z"), Op("div", Lit(IntV(10)), Var("y"))), Asg(TVar("z"), Op("add", QV("x", pa), Lit(IntV(1)))),
   Asg(TVar("z"), Op("add", Q(pa), Lit(IntV(1)))), Asg(TVar("z"), Call("upcase", <<Q(<<F("s")>>)>>)),
   Asg(TVar("z"), Op("mul", Var("y"), Lit(IntV(2)))), Asg(TVar("z"), Call("length", <<Var("x")>>)),
   Asg(TVar("z"), Op("lt", Var("x"), Lit(IntV(3)))), Asg(TVar("z"), Op("and", Var("x"), Lit(Bool(TRUE)))),
   Asg(TVar("z"), Op("add", Q(<<F("o"), F("p")>>), QV("x", <<I(0)>>))),
   \* the left operand changes what the right operand is (type state must flow lhs -> rhs)
   Asg(TVar("z"), Op("div", Group(Asg(TVar("y"), Lit(IntV(0)))), Var("y"))),
   Asg(TVar("z"), Op("div", Block(<<If(<<CondC>>, <<Asg(TVar("y"), Lit(IntV(0)))>>), Lit(IntV(100))>>), Var("y"))),
   Asg(TVar("z"), Op("add", Group(Asg(TVar("x"), Lit(Str("s")))), Var("x"))),
   Asg(TVar("z"), Op("mul", Block(<<If(<<CondC>>, <<Asg(TVar("y"), Lit(Str("s")))>>), Lit(IntV(2))>>), Var("y"))),
   Asg(TVar("z"), Op("or", Var("x"), Lit(Str("fallback")))), Asg(TVar("z"), Op("and", Var("x"), Lit(Bool(TRUE)))),
   Asg(TVar("z"), Lit(Null))}
ObserveT == <<ObjN(<<"a", "b", "m", "r", "x", "xa", "y">>,
                   <<Q(pa), Q(pb), QM(<<F("m")>>), Q(<<>>), Var("x"), QV("x", pa), Var("y")>>)>>
Bodies01 == {<<s1>> : s1 \in Setters} \cup {<<s1, s2>> : s1 \in Setters, s2 \in Setters}
            \cup (IF Thorough THEN {<<s1, s2, s3>> : s1 \in Setters, s2 \in Setters, s3 \in Setters} ELSE {})
Progs_C01 == {PreludeT \o b \o <<u>> \o ObserveT : b \in Bodies01, u \in Users}

(* ---------- C15: read-only paths ---------- *)
\* one (thorough: up to two) writes in the neighbourhood of the read-only paths: the path itself,
\* parents, children, positive / negative / out-of-range indices, removal, merge, metadata
proot == <<>>
pab == <<F("a"), F("b")>>
Merge15 == Asg(TExt(proot), Op("merge", Q(proot), ObjN(<<"a">>, <<Lit(IntV(7))>>)))
Writes15 ==
  {Asg(TExt(pa), Lit(IntV(9))), Asg(TExt(pab), Lit(IntV(9))),
   Asg(TExt(<<F("a"), I(0)>>), Lit(IntV(9))), Asg(TExt(<<F("a"), I(1)>>), Lit(IntV(9))),
   Asg(TExt(<<F("a"), I(-1)>>), Lit(IntV(9))), Asg(TExt(<<F("a"), I(-3)>>), Lit(IntV(9))),
   Asg(TExt(<<F("a"), I(4)>>), Lit(IntV(9))),
   Asg(TExt(proot), ObjN(<<>>, <<>>)), Merge15,
   Del(TExt(pa)), Del(TExt(<<F("a"), I(-1)>>)), Del(TExt(<<F("a"), I(0)>>)), Del(TExt(pab)), Del(TExt(proot)),
   Asg(TMeta(<<F("m")>>), Lit(IntV(1))), Asg(TMeta(<<F("m"), F("k")>>), Lit(IntV(2))),
   Asg(TMeta(proot), ObjN(<<>>, <<>>)), Del(TMeta(<<F("m")>>)),
   DelC(TExt(pab)), DelC(TMeta(<<F("m"), F("k")>>)), Asg(TExt(pz), DelC(TExt(<<F("a"), I(0)>>))),
   Asg2(TExt(pa), TVar("err"), Call("to_int", <<Q(<<F("x")>>)>>)),
   Asg2(TVar("ok"), TExt(pa), Call("to_int", <<Q(<<F("x")>>)>>)),
   Iter("for_each", ObjN(<<"p">>, <<Lit(IntV(1))>>), <<"k", "v">>, <<Asg(TExt(<<F("a"), I(-1)>>), Var("v"))>>)}
Progs_C15 == {<<w>> : w \in Writes15}
             \cup (IF Thorough THEN {<<w1, w2>> : w1 \in Writes15, w2 \in Writes15} ELSE {})
RoEntries == {[pre |-> pre, p |-> p, rec |-> r] :
                pre \in {"event"}, p \in {proot, pa, pab, <<F("a"), I(0)>>, <<F("a"), I(1)>>, <<F("a"), I(-1)>>}, r \in BOOLEAN}
             \cup {[pre |-> "meta", p |-> p, rec |-> r] : p \in {proot, <<F("m")>>, <<F("m"), F("k")>>}, r \in BOOLEAN}
\* sets of one entry, and of two (quick: the first one recursive - entries are kept in an ordered
\* set by the compiler, so how one entry's verdict affects the next matters)
RoSets == {<<e>> : e \in RoEntries}
          \cup {<<e1, e2>> : e1 \in {e \in RoEntries : Thorough \/ e.rec}, e2 \in RoEntries}
ASSUME Focus = "C15" => PrintT(<<"ROSETS", ToJson(SetToSeq(RoSets))>>)
Events15 == << [ev |-> EmptyObj, meta |-> EmptyObj],
               [ev |-> Obj([a |-> IntV(5), x |-> Str("7")]), meta |-> Obj([m |-> IntV(1)])],
               [ev |-> Obj([a |-> Obj([b |-> IntV(1), c |-> IntV(2)])]), meta |-> Obj([m |-> Obj([k |-> IntV(1)])])],
               [ev |-> Obj([a |-> Arr(<<IntV(1), IntV(2)>>), x |-> Str("q")]), meta |-> EmptyObj],
               [ev |-> Obj([a |-> Arr(<<IntV(1), IntV(2), IntV(3)>>)]), meta |-> Obj([m |-> Str("s")])],
               [ev |-> Obj([a |-> Arr(<<>>)]), meta |-> EmptyObj] >>

(* ---------- C34: discarded statements, some hiding side effects ---------- *)
SideG == Group(Asg(TExt(pa), Lit(IntV(1))))
SideV == Group(Asg(TVar("y"), Lit(IntV(2))))
SideB == Block(<<Asg(TExt(pa), Lit(IntV(1))), Lit(Str("x"))>>)
SideD == Block(<<Del(TExt(pa)), Lit(Str("x"))>>)
Discards ==
  {Lit(IntV(1)), Lit(Str("s")), Lit(Null), Var("x"), Q(pa), QV("x", pa),
   ObjN(<<"k">>, <<Lit(IntV(1))>>), ObjN(<<"k">>, <<SideG>>), ObjN(<<"j", "k">>, <<Lit(IntV(1)), SideV>>), ObjN(<<>>, <<>>),
   ArrN(<<Lit(IntV(1))>>), ArrN(<<SideG>>), ArrN(<<Lit(IntV(0)), SideV>>),
   Call("upcase", <<Lit(Str("s"))>>), Call("upcase", <<SideB>>), Call("upcase", <<SideD>>),
   Call("to_string", <<SideG>>), Call("to_string", <<SideV>>), Call("length", <<ArrN(<<SideG>>)>>),
   Call("to_string", <<Del(TExt(pa))>>),
   Op("add", Lit(IntV(1)), SideG), Op("add", Lit(IntV(1)), Lit(IntV(2))), Op("eq", SideV, Lit(IntV(2))),
   Op("or", Q(pa), SideG), Op("err", Call("to_int", <<Q(pa)>>), SideG), Op("err", Call("to_int", <<Q(pa)>>), Lit(IntV(0))),
   Op("err", Call("to_int", <<SideB>>), Lit(IntV(0))),
   Not(Group(Op("eq", SideG, Lit(IntV(1))))), Not(Lit(Bool(TRUE))),
   Group(Lit(IntV(1))), SideG, Block(<<Lit(IntV(1))>>), SideB,
   If(<<Lit(Bool(TRUE))>>, <<Lit(IntV(1))>>), If(<<Lit(Bool(TRUE))>>, <<SideG>>),
   IfElse(<<Op("eq", SideG, Lit(IntV(1)))>>, <<Lit(IntV(1))>>, <<Lit(IntV(2))>>),
   Del(TExt(pa)), Exists(TExt(pa)),
   Iter("for_each", ObjN(<<"p">>, <<Lit(IntV(1))>>), <<"k", "v">>, <<Asg(TExt(pc), Var("v"))>>),
   Iter("map_values", ObjN(<<"p">>, <<Lit(IntV(1))>>), <<"v">>, <<Asg(TExt(pc), Var("v"))>>),
   Iter("map_values", ObjN(<<"p">>, <<Lit(IntV(1))>>), <<"v">>, <<Lit(IntV(0))>>),
   Iter("filter", ArrN(<<Lit(IntV(1))>>), <<"k", "v">>, <<Asg(TExt(pc), Var("v")), Lit(Bool(TRUE))>>)}
\* if / else whose VALUE is used: the last expression of each branch is the value, whatever the
\* other branch ends with (a closure-taking call, a block, a literal)
Tails34 == {<<Lit(Str("none"))>>, <<Asg(TExt(pz), Lit(Bool(TRUE))), Lit(Str("none"))>>, <<ObjN(<<"k">>, <<Lit(IntV(1))>>)>>,
            <<Asg(TExt(pz), Lit(Bool(TRUE))), Call("to_string", <<Lit(IntV(1))>>)>>,
            <<Iter("map_values", ObjN(<<"p">>, <<Lit(IntV(1))>>), <<"v">>, <<Call("to_string", <<Var("v")>>)>>)>>,
            <<Asg(TExt(pz), Lit(IntV(1))), Block(<<Lit(IntV(3))>>)>>}
UsedIfs == {Asg(TExt(pc), IfElse(<<Exists(TExt(pa))>>, t, e)) : t \in Tails34, e \in Tails34}
\* statements whose value IS used (written to the event) and is a composite mixing calls and literals: no part of it may be
\* reported unused, wherever the statement stands (root, not last in an if body / bare block / closure body)
DownA == Call("downcase", <<Lit(Str("A"))>>)
UsedVals == {ArrN(<<DownA, Lit(Str("static"))>>), ArrN(<<Lit(Str("static")), DownA>>), ArrN(<<DownA, DownA>>),
             ArrN(<<Op("err", Call("to_int", <<Q(pa)>>), Lit(IntV(0))), ObjN(<<"kind">>, <<Lit(Str("item"))>>)>>),
             ArrN(<<DownA, Call("to_string", <<Lit(IntV(1))>>), Lit(IntV(7))>>),
             ObjN(<<"a", "b">>, <<DownA, Lit(IntV(7))>>), ObjN(<<"a", "b">>, <<Lit(IntV(7)), DownA>>),
             Call("length", <<ArrN(<<DownA, Lit(IntV(7))>>)>>),
             Op("add", DownA, Lit(Str("s"))),
             ArrN(<<Iter("map_values", ObjN(<<"p">>, <<Lit(IntV(1))>>), <<"v">>, <<Var("v")>>), Call("upcase", <<Lit(Str("x"))>>)>>)}
UsedPlaced == {Asg(TExt(pc), v) : v \in UsedVals}
              \cup {If(<<Exists(TExt(pa))>>, <<Asg(TExt(pc), v), Asg(TExt(pz), Lit(Bool(TRUE)))>>) : v \in UsedVals}
              \cup {Block(<<Asg(TExt(pc), v), Lit(IntV(0))>>) : v \in UsedVals}
              \cup {Iter("for_each", ObjN(<<"p">>, <<Lit(IntV(1))>>), <<"k", "v">>, <<Asg(TExt(pc), v), Asg(TExt(pz), Var("v"))>>) : v \in UsedVals}
Progs_C34 == {Prelude \o <<d>> \o Observe : d \in Discards \cup UsedIfs \cup UsedPlaced}
             \cup {Prelude \o <<Block(<<d, Lit(IntV(0))>>)>> \o Observe : d \in Discards}
             \cup (IF Thorough THEN {Prelude \o <<d1, d2>> \o Observe : d1 \in Discards, d2 \in Discards} ELSE {})

(* ---------- selection ---------- *)
Progs == CASE Focus = "C09" -> Progs_C09
           [] Focus = "C08" -> Progs_C08
           [] Focus \in {"C06", "C07"} -> Progs_Ctl
           [] Focus = "C13" -> Progs_C13
           [] Focus \in {"C01", "C02", "C12"} -> Progs_C01
           \* every construct that touches the target: all assignment forms and targets, del, exists,
           \* queries, closures writing paths, metadata
           [] Focus = "C16" -> Progs_C08 \cup Progs_C09 \cup Progs_C15
                               \cup {PreludeT \o <<st>> \o ObserveT : st \in Setters}
           [] Focus = "C17" -> Progs_C09 \cup Progs_C08 \cup {<<w, ObjN(<<"r">>, <<Q(proot)>>)>> : w \in Writes15}
           [] Focus = "C15" -> Progs_C15
           [] Focus = "C34" -> Progs_C34

\* events the harness runs every program on
Events == << [ev |-> EmptyObj, meta |-> EmptyObj],
             [ev |-> Obj([a |-> Bool(TRUE)]), meta |-> EmptyObj],
             [ev |-> Obj([a |-> Bool(FALSE), b |-> IntV(3)]), meta |-> EmptyObj],
             [ev |-> Obj([a |-> Null, b |-> Str("x")]), meta |-> EmptyObj],
             [ev |-> Obj([a |-> IntV(4), b |-> IntV(0), o |-> Obj([p |-> IntV(1), q |-> IntV(2)])]), meta |-> EmptyObj],
             [ev |-> Obj([a |-> Str("12"), o |-> Arr(<<IntV(1), Str("s"), IntV(1)>>)]), meta |-> Obj([c |-> IntV(1)])] >>

\* C17: fault schedules = sets of at most MaxFaults ordinals among the first Window target
\* operations of a run (ordinal 0 is Runtime::resolve's probe of the event root)
Window == IF Thorough THEN 9 ELSE 7
MaxFaults == IF Thorough THEN 2 ELSE 1
Schedules == {S \in SUBSET (0..(Window - 1)) : Cardinality(S) >= 1 /\ Cardinality(S) <= MaxFaults}
ASSUME Focus = "C17" => PrintT(<<"FAULTS", ToJson(SetToSeq({SetToSeq(S) : S \in Schedules}))>>)

Init == prog \in Progs
Next == UNCHANGED prog
Spec == Init /\ [][Next]_prog

ASSUME PrintT(<<"EVENTS", ToJson(IF Focus = "C15" THEN Events15 ELSE IF Focus = "C17" THEN Events \o Events15 ELSE Events)>>)

TypedFocus == Focus \in {"C01", "C02", "C12"}
\* events conforming to the external kinds (membership decided by the spec's own InKind)
Conforming(ext) == {e \in EvPool : InKind(e.ev, ext.target) /\ InKind(e.meta, ext.meta)}
ExtCases == {[ext |-> [target |-> ext.target, meta |-> ext.meta], extname |-> ext.name,
              events |-> SetToSeq(Conforming(ext))] : ext \in Exts}
\* printed once: the external kinds to compile against, each with its conforming events; the
\* driver runs every generated program under every such case
ASSUME TypedFocus => PrintT(<<"EXTCASES", ToJson(SetToSeq(ExtCases))>>)

Emit == PrintT(<<"REPLAY", ToJson([ast |-> prog])>>)
=============================================================================
