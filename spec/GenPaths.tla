------------------------------ MODULE GenPaths ------------------------------
(***************************************************************************)
(* C20 at model level + the universes for the conformance run.  TLC checks *)
(* on the transcribed renderer and state machine that every non-root path  *)
(* of the bounded universe survives Render -> Parse, and prints the        *)
(* universes (field strings, indices, the text alphabet).                  *)
(***************************************************************************)
EXTENDS PathSyntax, Json, SequencesExt

FieldAlphabet == {"a", "Z", "0", "_", "@", "-", ".", " ", "\"", "\\", "é", "["}
FieldsU == {<<>>} \cup {<<c>> : c \in FieldAlphabet} \cup {<<c, d>> : c \in FieldAlphabet, d \in FieldAlphabet}
IndicesU == {0, 7, 10, -1, -12}
SegU == {[fc |-> f] : f \in FieldsU} \cup {[i |-> n] : n \in IndicesU}
TextAlphabet == <<".", "a", "-", "[", "]", "0", "1", "\"", "\\", "@", "%", " ">>

VARIABLE p
Init == p \in {<<s>> : s \in SegU} \cup {<<s, t>> : s \in SegU, t \in SegU}
Next == UNCHANGED p
Spec == Init /\ [][Next]_p

\* model-level round trip
RoundTrip == LET r == Parse(Render(p)) IN r.ok /\ r.p = p
RoundTripTarget == \A pre \in {"event", "meta"} :
                     LET r == ParseTarget(RenderTarget(pre, p)) IN r.pre = pre /\ r.r.ok /\ r.r.p = p

ASSUME PrintT(<<"FIELDS", ToJson(SetToSeq(FieldsU))>>)
ASSUME PrintT(<<"INDICES", ToJson(SetToSeq(IndicesU))>>)
ASSUME PrintT(<<"ALPHABET", ToJson(TextAlphabet)>>)
=============================================================================
