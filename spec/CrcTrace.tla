------------------------------ MODULE CrcTrace ------------------------------
(***************************************************************************)
(* Validates recorded results of the `crc` function (C27) against the CRC  *)
(* model of Crc.tla.  Each record carries the algorithm name, the message  *)
(* bytes and the text the real function returned.  The model register is   *)
(* advanced ONE MESSAGE BIT PER STEP (action Bit); when the message is     *)
(* consumed, action Judge compares the decimal rendering of the model's    *)
(* CRC with the recorded text and moves to the next record.  Records       *)
(* marked `published` carry the catalogue's own check value instead of an  *)
(* implementation result: they verify the model against the published      *)
(* check values in the same run.                                           *)
(***************************************************************************)
EXTENDS Sha, Json, IOUtils, TLC

Rec == ndJsonDeserialize(IOEnv.TRACE)
VARIABLES l, k, reg, viols, cnt
cvars == <<l, k, reg, viols, cnt>>
Ev == Rec[l]
Alg(e) == Params(e.inp.alg)
Bits(e) == MsgBits(e.inp.x.c, Alg(e).refin)
Bump(c, name) == [c EXCEPT ![name] = @ + 1]
IsSha(e) == e.e = "law" /\ e.law.name = "sha"
IsSha3(e) == e.e = "law" /\ e.law.name = "sha3"
BlockWords(A, msg, b) == IF b <= NBlocks(A, msg) THEN [j \in 1..16 |-> BlockWord(A, msg, b, j)] ELSE <<>>
RawBytes(v) == IF "c" \in DOMAIN v THEN v.c ELSE v.u          \* (ASCII-only when given as text)
ShaInit(A, msg) == [h |-> A.iv, v |-> A.iv, w |-> <<>>, b |-> 1, t |-> 0, m |-> BlockWords(A, msg, 1)]
StartReg(j) == IF j <= Len(Rec) /\ Rec[j].e = "law" /\ Rec[j].law.name = "crc" THEN InitReg(Params(Rec[j].inp.alg))
               ELSE IF j <= Len(Rec) /\ IsSha(Rec[j]) THEN ShaInit(Algo(Rec[j].inp.f), RawBytes(Rec[j].inp.x))
               ELSE IF j <= Len(Rec) /\ IsSha3(Rec[j]) THEN [A |-> Absorb(Sha3Params(Rec[j].inp.f), ZeroState, RawBytes(Rec[j].inp.x), 1), b |-> 1, t |-> 0]
               ELSE <<>>

Bit == /\ l <= Len(Rec) /\ Ev.e = "law" /\ Ev.law.name = "crc" /\ k < Len(Bits(Ev))
       /\ reg' = StepBit(reg, Poly(Alg(Ev)), Bits(Ev)[k + 1])
       /\ k' = k + 1
       /\ UNCHANGED <<l, viols, cnt>>

Judge == /\ l <= Len(Rec) /\ Ev.e = "law" /\ Ev.law.name = "crc" /\ k = Len(Bits(Ev))
         /\ LET want == Finish(Alg(Ev), reg)
                ok == IF Ev.inp.published THEN want = LowBits(Alg(Ev).check, Alg(Ev).width)
                      ELSE Ev.r.out.k = "ok" /\ Ev.r.out.v.t = "bytes" /\ "u" \in DOMAIN Ev.r.out.v /\ Ev.r.out.v.u = Decimal(want)
            IN /\ viols' = IF ok THEN viols
                           ELSE Append(viols, [prop |-> "C27", rule |-> IF Ev.inp.published THEN "ModelReproducesPublishedCheck" ELSE "CrcMatchesModel",
                                               at |-> Ev.inp.alg, prog |-> 0, line |-> l, what |-> [inp |-> Ev.inp, r |-> Ev.r, want |-> Decimal(want)]])
               /\ cnt' = Bump(Bump(cnt, "laws"), IF Ev.inp.published THEN "published" ELSE "C27")
         /\ l' = l + 1 /\ k' = 0 /\ reg' = StartReg(l + 1)


(* ---------- the other digests: definitional and published-vector laws, one step per record ---------- *)
IsCrc(e) == e.e = "law" /\ e.law.name = "crc"
OkStr(x) == x.k = "ok" /\ x.v.t = "bytes" /\ "u" \in DOMAIN x.v
RECURSIVE BitsVal(_, _)
BitsVal(b, acc) == IF b = <<>> THEN acc ELSE BitsVal(Tail(b), acc * 2 + Head(b))
XorByte(a, b) == BitsVal(Xor(ByteBits(a), ByteBits(b)), 0)
\* HMAC (RFC 2104) pads of a key not longer than the block
Pad(key, block, v) == [j \in 1..block |-> XorByte(IF j <= Len(key) THEN key[j] ELSE 0, v)]
IsLowerHex(u) == \A j \in 1..Len(u) : (u[j] >= 48 /\ u[j] <= 57) \/ (u[j] >= 97 /\ u[j] <= 102)
HexLen == [f \in {"md5", "sha1", "SHA-224", "SHA-256", "SHA-384", "SHA-512", "SHA-512/224", "SHA-512/256", "SHA3-224", "SHA3-256", "SHA3-384", "SHA3-512"} |->
             CASE f = "md5" -> 32 [] f = "sha1" -> 40 [] f \in {"SHA-224", "SHA-512/224", "SHA3-224"} -> 56 [] f \in {"SHA-256", "SHA-512/256", "SHA3-256"} -> 64
               [] f \in {"SHA-384", "SHA3-384"} -> 96 [] OTHER -> 128]
\* published test vectors (FIPS 180 / FIPS 202 / RFC 1321 examples): algorithm, message, digest
Published == {
  [f |-> "md5", m |-> "", h |-> "d41d8cd98f00b204e9800998ecf8427e"], [f |-> "md5", m |-> "abc", h |-> "900150983cd24fb0d6963f7d28e17f72"],
  [f |-> "md5", m |-> "message digest", h |-> "f96b697d7cb7938d525a2f31aaf161d0"],
  [f |-> "sha1", m |-> "", h |-> "da39a3ee5e6b4b0d3255bfef95601890afd80709"], [f |-> "sha1", m |-> "abc", h |-> "a9993e364706816aba3e25717850c26c9cd0d89d"],
  [f |-> "SHA-224", m |-> "", h |-> "d14a028c2a3a2bc9476102bb288234c415a2b01f828ea62ac5b3e42f"],
  [f |-> "SHA-224", m |-> "abc", h |-> "23097d223405d8228642a477bda255b32aadbce4bda0b3f7e36c9da7"],
  [f |-> "SHA-256", m |-> "", h |-> "e3b0c44298fc1c149afbf4c8996fb92427ae41e4649b934ca495991b7852b855"],
  [f |-> "SHA-256", m |-> "abc", h |-> "ba7816bf8f01cfea414140de5dae2223b00361a396177a9cb410ff61f20015ad"],
  [f |-> "SHA-384", m |-> "", h |-> "38b060a751ac96384cd9327eb1b1e36a21fdb71114be07434c0cc7bf63f6e1da274edebfe76f65fbd51ad2f14898b95b"],
  [f |-> "SHA-384", m |-> "abc", h |-> "cb00753f45a35e8bb5a03d699ac65007272c32ab0eded1631a8b605a43ff5bed8086072ba1e7cc2358baeca134c825a7"],
  [f |-> "SHA-512", m |-> "", h |-> "cf83e1357eefb8bdf1542850d66d8007d620e4050b5715dc83f4a921d36ce9ce47d0d13c5d85f2b0ff8318d2877eec2f63b931bd47417a81a538327af927da3e"],
  [f |-> "SHA-512", m |-> "abc", h |-> "ddaf35a193617abacc417349ae20413112e6fa4e89a97ea20a9eeee64b55d39a2192992a274fc1a836ba3c23a3feebbd454d4423643ce80e2a9ac94fa54ca49f"],
  [f |-> "SHA-512/224", m |-> "", h |-> "6ed0dd02806fa89e25de060c19d3ac86cabb87d6a0ddd05c333b84f4"], [f |-> "SHA-512/224", m |-> "abc", h |-> "4634270f707b6a54daae7530460842e20e37ed265ceee9a43e8924aa"],
  [f |-> "SHA-512/256", m |-> "", h |-> "c672b8d1ef56ed28ab87c3622c5114069bdd3ad7b8f9737498d0c01ecef0967a"], [f |-> "SHA-512/256", m |-> "abc", h |-> "53048e2681941ef99b2e29b76b4c7dabe4c2d0c634fc6d46e0e2f13107e7af23"],
  [f |-> "SHA3-224", m |-> "", h |-> "6b4e03423667dbb73b6e15454f0eb1abd4597f9a1b078e3f5b5a6bc7"],
  [f |-> "SHA3-256", m |-> "", h |-> "a7ffc6f8bf1ed76651c14756a061d662f580ff4de43b49fa82d80a4b80f8434a"],
  [f |-> "SHA3-256", m |-> "abc", h |-> "3a985da74fe225b2045c172d6bd390bd855f086e3e9d525b46bfe24511431532"],
  [f |-> "SHA3-384", m |-> "", h |-> "0c63a75b845e4f7d01107d852e4c2485c51a50aaaa94fc61995e71bbee983a2ac3713831264adb47fb6bd1e058d5f004"],
  [f |-> "SHA3-512", m |-> "", h |-> "a69f73cca23a9ac5c8b567dc185a756e97c982164fe25859e0d1dcc1475c80a615b2123af1f5f94c11e3e9402c3ac558f500199d95b6d3e301758586281dcd26"] }
DigestLaw(r, i, name) ==
  CASE name = "hmac_def" -> /\ i.ki.c = Pad(i.key.c, i.block, 54) /\ i.ko.c = Pad(i.key.c, i.block, 92)
                            /\ r.mac.k = "ok" /\ r.def.k = "ok" /\ r.mac.v.t = "bytes" /\ r.def.v.t = "bytes"
                            /\ RawBytes(r.mac.v) = RawBytes(r.def.v)
    [] name = "digest_vector" -> OkStr(r.out) /\ [f |-> i.f, m |-> i.x.s, h |-> r.out.v.s] \in Published
    \* the digest is lower-case hex of the algorithm's length; two different messages give different digests; no two
    \* variants of a family agree on the message
    [] name = "digest_shape" -> /\ OkStr(r.x) /\ OkStr(r.y) /\ Len(r.x.v.u) = HexLen[i.f] /\ IsLowerHex(r.x.v.u)
                                /\ (RawBytes(i.x) # RawBytes(i.y)) => (r.x.v.u # r.y.v.u)
                                /\ (RawBytes(i.x) = RawBytes(i.y)) => (r.x.v.u = r.y.v.u)
    [] name = "digest_variants" -> \A a, b \in DOMAIN r : (OkStr(r[a]) /\ OkStr(r[b]) /\ (a # b => r[a].v.u # r[b].v.u))
\* xxHash of the empty input with seed 0 (published in the xxHash specification): 32- and 64-bit results as the limbs of the
\* two's-complement integer the function returns, the 128-bit result as its decimal text
XxEmpty == [v \in {"XXH32", "XXH64", "XXH3-64"} |-> IF v = "XXH32" THEN <<0, 0, 716, 23813>>                    \* 0x02CC5D05
                                                       ELSE IF v = "XXH64" THEN <<61254, 56119, 20952, 59801>>     \* 0xEF46DB3751D8E999
                                                       ELSE <<11526, 32773, 14547, 38082>>]                         \* 0x2D06800538D394C2
XxEmpty128 == "204254712233039002205064565430793619839"                                                                \* 0x99AA06D3014798D86001C324468D497F
OkInt(x) == x.k = "ok" /\ x.v.t = "int"
HashLaw(r, i, name) ==
  CASE name = "xx_vector" -> IF i.variant = "XXH3-128" THEN OkStr(r.out) /\ r.out.v.s = XxEmpty128
                             ELSE OkInt(r.out) /\ r.out.v.w = XxEmpty[i.variant]
    \* integer-valued hashes: equal inputs equal results, different inputs different results, XXH32 fits 32 bits, variants differ
    [] name = "hash_laws" -> /\ \A n \in {"x32", "x64", "x3", "sea"} : OkInt(r[n]) /\ OkInt(r[n \o "_y"])
                             /\ OkStr(r.x128) /\ OkStr(r.x128_y)
                             /\ r.x32.v.w[1] = 0 /\ r.x32.v.w[2] = 0
                             /\ (RawBytes(i.x) = RawBytes(i.y)) => (\A n \in {"x32", "x64", "x3", "sea"} : r[n].v.w = r[n \o "_y"].v.w) /\ r.x128.v.s = r.x128_y.v.s
                             /\ (RawBytes(i.x) # RawBytes(i.y)) => (\A n \in {"x64", "x3", "sea"} : r[n].v.w # r[n \o "_y"].v.w) /\ r.x128.v.s # r.x128_y.v.s
                             /\ r.x64.v.w # r.x3.v.w /\ r.x64.v.w # r.sea.v.w /\ r.x3.v.w # r.sea.v.w
Digest == /\ l <= Len(Rec) /\ Ev.e = "law" /\ ~IsCrc(Ev) /\ ~IsSha(Ev) /\ ~IsSha3(Ev)
          /\ LET ok == IF Ev.law.name \in {"xx_vector", "hash_laws"} THEN HashLaw(Ev.r, Ev.inp, Ev.law.name) ELSE DigestLaw(Ev.r, Ev.inp, Ev.law.name) IN
             /\ viols' = IF ok THEN viols ELSE Append(viols, [prop |-> "C27", rule |-> Ev.law.name, at |-> Ev.law.fn, prog |-> 0, line |-> l, what |-> [inp |-> Ev.inp, r |-> Ev.r]])
             /\ cnt' = Bump(Bump(cnt, "laws"), "C27")
          /\ l' = l + 1 /\ k' = 0 /\ reg' = StartReg(l + 1)

(* ---------- md5 / sha1 / sha2: the model of Sha.tla, one round of the compression function per step ---------- *)
HA == Algo(Ev.inp.f)
HMsg == RawBytes(Ev.inp.x)
ShaRound == /\ l <= Len(Rec) /\ IsSha(Ev) /\ reg.b <= NBlocks(HA, HMsg) /\ reg.t < HA.rounds
            /\ LET nx == Round(HA, reg.v, reg.w, reg.m, reg.t)
               IN reg' = [reg EXCEPT !.v = nx.v, !.w = nx.w, !.t = reg.t + 1]
            /\ k' = k + 1 /\ UNCHANGED <<l, viols, cnt>>
ShaBlockEnd == /\ l <= Len(Rec) /\ IsSha(Ev) /\ reg.b <= NBlocks(HA, HMsg) /\ reg.t = HA.rounds
               /\ LET h2 == AddWords(reg.h, reg.v) IN reg' = [h |-> h2, v |-> h2, w |-> <<>>, b |-> reg.b + 1, t |-> 0, m |-> BlockWords(HA, HMsg, reg.b + 1)]
               /\ k' = k + 1 /\ UNCHANGED <<l, viols, cnt>>
ShaJudge == /\ l <= Len(Rec) /\ IsSha(Ev) /\ reg.b > NBlocks(HA, HMsg)
            /\ LET want == DigestHex(HA, reg.h, Ev.inp.f)
                   \* a published record carries the vector as text and code points; the text must be the spec's own entry
                   ok == IF Ev.inp.published THEN [f |-> Ev.inp.f, m |-> Ev.inp.x.s, h |-> Ev.inp.want.s] \in Published /\ Ev.inp.want.u = want
                         ELSE OkStr(Ev.r.out) /\ Ev.r.out.v.u = want
               IN /\ viols' = IF ok THEN viols
                              ELSE Append(viols, [prop |-> "C27", rule |-> IF Ev.inp.published THEN "ModelReproducesPublishedVector" ELSE "DigestMatchesModel",
                                                  at |-> Ev.inp.f, prog |-> 0, line |-> l, what |-> [inp |-> Ev.inp, r |-> Ev.r, want |-> want]])
                  /\ cnt' = Bump(Bump(cnt, "laws"), IF Ev.inp.published THEN "published" ELSE "C27")
            /\ l' = l + 1 /\ k' = 0 /\ reg' = StartReg(l + 1)

(* ---------- sha3: Keccak-f[1600], one round per step ---------- *)
KP == Sha3Params(Ev.inp.f)
KRound == /\ l <= Len(Rec) /\ IsSha3(Ev) /\ reg.b <= Sha3Blocks(KP, HMsg) /\ reg.t < 24
          /\ reg' = [reg EXCEPT !.A = KeccakRound(reg.A, reg.t), !.t = reg.t + 1]
          /\ k' = k + 1 /\ UNCHANGED <<l, viols, cnt>>
KBlockEnd == /\ l <= Len(Rec) /\ IsSha3(Ev) /\ reg.b <= Sha3Blocks(KP, HMsg) /\ reg.t = 24
             /\ reg' = [A |-> IF reg.b < Sha3Blocks(KP, HMsg) THEN Absorb(KP, reg.A, HMsg, reg.b + 1) ELSE reg.A, b |-> reg.b + 1, t |-> 0]
             /\ k' = k + 1 /\ UNCHANGED <<l, viols, cnt>>
KJudge == /\ l <= Len(Rec) /\ IsSha3(Ev) /\ reg.b > Sha3Blocks(KP, HMsg)
          /\ LET want == Sha3Hex(KP, reg.A)
                 ok == IF Ev.inp.published THEN [f |-> Ev.inp.f, m |-> Ev.inp.x.s, h |-> Ev.inp.want.s] \in Published /\ Ev.inp.want.u = want
                       ELSE OkStr(Ev.r.out) /\ Ev.r.out.v.u = want
             IN /\ viols' = IF ok THEN viols
                            ELSE Append(viols, [prop |-> "C27", rule |-> IF Ev.inp.published THEN "ModelReproducesPublishedVector" ELSE "DigestMatchesModel",
                                                at |-> Ev.inp.f, prog |-> 0, line |-> l, what |-> [inp |-> Ev.inp, r |-> Ev.r, want |-> want]])
                /\ cnt' = Bump(Bump(cnt, "laws"), IF Ev.inp.published THEN "published" ELSE "C27")
          /\ l' = l + 1 /\ k' = 0 /\ reg' = StartReg(l + 1)

Lost == /\ l <= Len(Rec) /\ Ev.e = "call"
        /\ viols' = Append(viols, [prop |-> "C05", rule |-> "LawEvaluation:" \o Ev.out.k, at |-> "eval", prog |-> 0, line |-> l, what |-> [src |-> Ev.src]])
        /\ cnt' = Bump(cnt, "laws")
        /\ l' = l + 1 /\ k' = 0 /\ reg' = StartReg(l + 1)

Init == l = 1 /\ k = 0 /\ reg = StartReg(1) /\ viols = <<>> /\ cnt = [c \in {"laws", "C27", "published"} |-> 0]
Next == Bit \/ Judge \/ Digest \/ ShaRound \/ ShaBlockEnd \/ ShaJudge \/ KRound \/ KBlockEnd \/ KJudge \/ Lost
TraceSpec == Init /\ [][Next]_cvars
Report == (l = Len(Rec) + 1) =>
   PrintT(<<"RESULT", ToJson([consumed |-> l - 1, viols |-> viols, divs |-> <<>>, cnt |-> cnt])>>)
TraceAccepted == TRUE
=============================================================================
