---------------------------- MODULE TraceUnused ----------------------------
(***************************************************************************)
(* C34 - unused-expression warnings only flag removable code.              *)
(*                                                                         *)
(* For every warning "unused ..." (other than unused variables) of the     *)
(* REAL compiler that covers a whole root statement of a TLC-generated     *)
(* program, the harness deleted the statement, recompiled, and ran the     *)
(* original and the edited program on every event.  This specification     *)
(* states what "removable" means and evaluates it on the recorded runs:    *)
(*   - the expression cannot fail (compiler's own classification, H2):     *)
(*       final event, final metadata and success/failure are the same;     *)
(*   - it can fail: whenever the original succeeds, the edited program's   *)
(*       final event is the same.                                          *)
(***************************************************************************)
EXTENDS Values, Json, IOUtils

Rec == ndJsonDeserialize(IOEnv.TRACE)

VARIABLES l, viols, cnt
uvars == <<l, viols, cnt>>
Ev == Rec[l]

Succeeds(e) == e.e = "end" /\ e.res.r = "ok"
SameOutcomeClass(a, b) == a.e = b.e /\ (a.e = "end" => a.res.r = b.res.r)

RemovableRun(r, fal) ==
  IF ~fal
  THEN /\ SameOutcomeClass(r.orig, r.edit)
       /\ (r.orig.e = "end" => r.orig.ev = r.edit.ev /\ r.orig.meta = r.edit.meta)
  ELSE Succeeds(r.orig) => (Succeeds(r.edit) /\ r.orig.ev = r.edit.ev)

BadRuns(u) == {j \in 1..Len(u.runs) : ~RemovableRun(u.runs[j], u.fal)}

Bump(c, name) == [c EXCEPT ![name] = @ + 1]

T_Unused ==
  /\ l <= Len(Rec) /\ Ev.e = "unused"
  /\ LET bad == BadRuns(Ev) IN
     /\ viols' = (IF bad = {} THEN viols
                  ELSE Append(viols, [prop |-> "C34", rule |-> (IF Ev.fal THEN "RemovableFallible" ELSE "Removable"),
                                      at |-> Ev.desc, prog |-> Ev.id, line |-> l,
                                      what |-> [msg |-> Ev.msg, src |-> Ev.src,
                                                run |-> Ev.runs[CHOOSE j \in bad : TRUE]]]))
     /\ cnt' = Bump(Bump(cnt, "judged"), IF bad = {} THEN "removable" ELSE "not_removable")
  /\ l' = l + 1

T_Other ==
  /\ l <= Len(Rec) /\ Ev.e \in {"unjudged", "nowarn", "reject", "panic"}
  /\ viols' = (IF Ev.e = "panic"
               THEN Append(viols, [prop |-> "C04", rule |-> "NoPanic", at |-> Ev.where, prog |-> Ev.id, line |-> l,
                                   what |-> [got |-> Ev.message]])
               ELSE viols)
  /\ cnt' = Bump(cnt, Ev.e)
  /\ l' = l + 1

Init == l = 1 /\ viols = <<>> /\ cnt = [c \in {"judged", "removable", "not_removable", "unjudged", "nowarn", "reject", "panic"} |-> 0]
Next == T_Unused \/ T_Other
TraceSpec == Init /\ [][Next]_uvars

Report == (l = Len(Rec) + 1) =>
   PrintT(<<"RESULT", ToJson([consumed |-> l - 1, viols |-> viols, divs |-> <<>>, cnt |-> cnt])>>)
TraceAccepted == \/ TLCGet("stats").diameter - 1 = Len(Rec)
                 \/ PrintT(<<"STUCK", TLCGet("stats").diameter, Len(Rec)>>)
=============================================================================
