//! Engine B: the small algebraic subsystems - value path operations (C18), kinds (C19),
//! path syntax (C20).  Each command applies the REAL operations to TLC-generated cases and records
//! the results for the trace specifications (spec/TraceValues.tla, TraceKinds.tla, TracePaths.tla).
use std::panic::{AssertUnwindSafe, catch_unwind};

use serde_json::{Value as J, json};
use vrl::compiler::{Target, TargetValue};
use vrl::path::{OwnedTargetPath, PathPrefix};
use vrl::value::{Secrets, Value};

use crate::core::panic_message;
use crate::enc;

fn opt(v: Option<&Value>) -> J {
    match v {
        Some(v) => enc::val_to_json(v),
        None => json!({"t": "none"}),
    }
}

/// C18: get / insert / get-after / remove on a real `Value`, and the same through `TargetValue`.
pub fn value_case(case: &J) -> J {
    let r = catch_unwind(AssertUnwindSafe(|| {
        let v = enc::json_to_val(&case["v"]);
        let p = enc::json_to_path(&case["p"]);
        let x = enc::json_to_val(&case["x"]);
        let prune = case["prune"].as_bool().unwrap_or(false);

        let got = opt(v.get(&p));
        let mut vi = v.clone();
        let prev = vi.insert(&p, x.clone());
        let got_after = opt(vi.get(&p));
        let mut vr = v.clone();
        let removed = vr.remove(&p, prune);
        let mut vm = v.clone();
        let got_mut = opt(vm.get_mut(&p).map(|m| &*m));

        // the Target wrappers (event prefix)
        let tp = OwnedTargetPath { prefix: PathPrefix::Event, path: p.clone() };
        let mk = || TargetValue { value: v.clone(), metadata: Value::Object(Default::default()), secrets: Secrets::new() };
        let t0 = mk();
        let tget = match t0.target_get(&tp) {
            Ok(o) => opt(o),
            Err(e) => json!({"t": "err", "m": e}),
        };
        let mut t1 = mk();
        let tins_ok = t1.target_insert(&tp, x.clone()).is_ok();
        let mut t2 = mk();
        let trem = match t2.target_remove(&tp, prune) {
            Ok(o) => opt(o.as_ref()),
            Err(e) => json!({"t": "err", "m": e}),
        };
        json!({"e": "valop", "v": case["v"], "p": case["p"], "x": case["x"], "prune": prune,
               "get": got, "get_mut": got_mut,
               "ins": {"val": enc::val_to_json(&vi), "prev": opt(prev.as_ref())},
               "get_after": got_after,
               "rem": {"val": enc::val_to_json(&vr), "removed": opt(removed.as_ref())},
               "t": {"get": tget, "ins_ok": tins_ok, "ins_val": enc::val_to_json(&t1.value),
                     "rem": trem, "rem_val": enc::val_to_json(&t2.value)}})
    }));
    match r {
        Ok(j) => j,
        Err(p) => json!({"e": "panic", "where": "value-op", "id": 0, "message": panic_message(&p), "case": case}),
    }
}

/// C19: the real `Kind` operations on a TLC-generated kind, next to the real `Value` operations
/// on one of its members.
pub fn kind_case(case: &J) -> J {
    use vrl::compiler::value::VrlValueArithmetic;
    let r = catch_unwind(AssertUnwindSafe(|| {
        let k = enc::json_to_kind(&case["k"]);
        let v = enc::json_to_val(&case["v"]);
        let p = enc::json_to_path(&case["p"]);
        let kx = enc::json_to_kind(&case["kx"]);
        let x = enc::json_to_val(&case["x"]);
        let k2 = enc::json_to_kind(&case["k2"]);
        let compact = case["compact"].as_bool().unwrap_or(false);

        let at_path = k.at_path(&p);
        let get = k.get(&p);
        let mut kins = k.clone();
        kins.insert(&p, kx.clone());
        let mut krem = k.clone();
        let removed_kind = krem.remove(&p, compact);
        let union = k.union(k2.clone());
        let mut merged = k.clone();
        merged.merge(k2.clone(), vrl::value::kind::merge::Strategy { collisions: vrl::value::kind::merge::CollisionStrategy::Overwrite });
        let sup = k.is_superset(&k2).is_ok();

        let vget = opt(v.get(&p));
        let mut vi = v.clone();
        vi.insert(&p, x.clone());
        let mut vr = v.clone();
        let vremoved = vr.remove(&p, compact);
        let (has_v2, v2) = match case.get("v2") {
            Some(j) if j.get("t").is_some() => (true, enc::json_to_val(j)),
            _ => (false, Value::Null),
        };
        let vmerge = if has_v2 {
            match v.clone().try_merge(v2.clone()) {
                Ok(m) => enc::val_to_json(&m),
                Err(_) => json!({"t": "none"}),
            }
        } else {
            json!({"t": "none"})
        };
        json!({"e": "kindop", "k": case["k"], "v": case["v"], "p": case["p"], "kx": case["kx"], "x": case["x"],
               "k2": case["k2"], "v2": if has_v2 { case["v2"].clone() } else { json!({"t": "none"}) }, "compact": compact,
               "rt": enc::kind_to_json(&k), "rtx": enc::kind_to_json(&kx), "rt2": enc::kind_to_json(&k2),
               "at_path": enc::kind_to_json(&at_path), "get": enc::kind_to_json(&get),
               "ins": enc::kind_to_json(&kins),
               "rem": {"kind": enc::kind_to_json(&krem), "removed": enc::kind_to_json(&removed_kind)},
               "union": enc::kind_to_json(&union), "merge": enc::kind_to_json(&merged), "sup": sup,
               "vget": vget, "vins": enc::val_to_json(&vi),
               "vrem": {"val": enc::val_to_json(&vr), "removed": opt(vremoved.as_ref())},
               "vmerge": vmerge})
    }));
    match r {
        Ok(j) => j,
        Err(p) => json!({"e": "panic", "where": "kind-op", "id": 0, "message": panic_message(&p), "case": case}),
    }
}
