//! Engine B: the small algebraic subsystems - value path operations (C18), kinds (C19),
//! path syntax (C20).  Each command applies the REAL operations to TLC-generated cases and records
//! the results for the trace specifications (spec/TraceValues.tla, TraceKinds.tla, TracePaths.tla).
use std::panic::{AssertUnwindSafe, catch_unwind};

use serde_json::{Value as J, json};
use vrl::compiler::{Target, TargetValue};
use vrl::path::{OwnedTargetPath, PathPrefix};
use vrl::value::{Secrets, Value};

use crate::core::panic_message;
use crate::enc;

fn opt(v: Option<&Value>) -> J {
    match v {
        Some(v) => enc::val_to_json(v),
        None => json!({"t": "none"}),
    }
}

/// C18: get / insert / get-after / remove on a real `Value`, and the same through `TargetValue`.
pub fn value_case(case: &J) -> J {
    let r = catch_unwind(AssertUnwindSafe(|| {
        let v = enc::json_to_val(&case["v"]);
        let p = enc::json_to_path(&case["p"]);
        let x = enc::json_to_val(&case["x"]);
        let prune = case["prune"].as_bool().unwrap_or(false);

        let got = opt(v.get(&p));
        let mut vi = v.clone();
        let prev = vi.insert(&p, x.clone());
        let got_after = opt(vi.get(&p));
        let mut vr = v.clone();
        let removed = vr.remove(&p, prune);
        let mut vm = v.clone();
        let got_mut = opt(vm.get_mut(&p).map(|m| &*m));

        // the Target wrappers (event prefix)
        let tp = OwnedTargetPath { prefix: PathPrefix::Event, path: p.clone() };
        let mk = || TargetValue { value: v.clone(), metadata: Value::Object(Default::default()), secrets: Secrets::new() };
        let t0 = mk();
        let tget = match t0.target_get(&tp) {
            Ok(o) => opt(o),
            Err(e) => json!({"t": "err", "m": e}),
        };
        let mut t1 = mk();
        let tins_ok = t1.target_insert(&tp, x.clone()).is_ok();
        let mut t2 = mk();
        let trem = match t2.target_remove(&tp, prune) {
            Ok(o) => opt(o.as_ref()),
            Err(e) => json!({"t": "err", "m": e}),
        };
        json!({"e": "valop", "v": case["v"], "p": case["p"], "x": case["x"], "prune": prune,
               "get": got, "get_mut": got_mut,
               "ins": {"val": enc::val_to_json(&vi), "prev": opt(prev.as_ref())},
               "get_after": got_after,
               "rem": {"val": enc::val_to_json(&vr), "removed": opt(removed.as_ref())},
               "t": {"get": tget, "ins_ok": tins_ok, "ins_val": enc::val_to_json(&t1.value),
                     "rem": trem, "rem_val": enc::val_to_json(&t2.value)}})
    }));
    match r {
        Ok(j) => j,
        Err(p) => json!({"e": "panic", "where": "value-op", "id": 0, "message": panic_message(&p), "case": case}),
    }
}
