//! Engine B: the small algebraic subsystems - value path operations (C18), kinds (C19),
//! path syntax (C20).  Each command applies the REAL operations to TLC-generated cases and records
//! the results for the trace specifications (spec/TraceValues.tla, TraceKinds.tla, TracePaths.tla).
use std::panic::{AssertUnwindSafe, catch_unwind};

use serde_json::{Value as J, json};
use vrl::compiler::{Target, TargetValue};
use vrl::path::{OwnedTargetPath, PathPrefix};
use vrl::value::{Secrets, Value};

use crate::core::panic_message;
use crate::enc;

fn opt(v: Option<&Value>) -> J {
    match v {
        Some(v) => enc::val_to_json(v),
        None => json!({"t": "none"}),
    }
}

/// C18: get / insert / get-after / remove on a real `Value`, and the same through `TargetValue`.
pub fn value_case(case: &J) -> J {
    let r = catch_unwind(AssertUnwindSafe(|| {
        let v = enc::json_to_val(&case["v"]);
        let p = enc::json_to_path(&case["p"]);
        let x = enc::json_to_val(&case["x"]);
        let prune = case["prune"].as_bool().unwrap_or(false);

        let got = opt(v.get(&p));
        let mut vi = v.clone();
        let prev = vi.insert(&p, x.clone());
        let got_after = opt(vi.get(&p));
        let mut vr = v.clone();
        let removed = vr.remove(&p, prune);
        let mut vm = v.clone();
        let got_mut = opt(vm.get_mut(&p).map(|m| &*m));

        // the Target wrappers (event prefix)
        let tp = OwnedTargetPath { prefix: PathPrefix::Event, path: p.clone() };
        let mk = || TargetValue { value: v.clone(), metadata: Value::Object(Default::default()), secrets: Secrets::new() };
        let t0 = mk();
        let tget = match t0.target_get(&tp) {
            Ok(o) => opt(o),
            Err(e) => json!({"t": "err", "m": e}),
        };
        let mut t1 = mk();
        let tins_ok = t1.target_insert(&tp, x.clone()).is_ok();
        let mut t2 = mk();
        let trem = match t2.target_remove(&tp, prune) {
            Ok(o) => opt(o.as_ref()),
            Err(e) => json!({"t": "err", "m": e}),
        };
        json!({"e": "valop", "v": case["v"], "p": case["p"], "x": case["x"], "prune": prune,
               "get": got, "get_mut": got_mut,
               "ins": {"val": enc::val_to_json(&vi), "prev": opt(prev.as_ref())},
               "get_after": got_after,
               "rem": {"val": enc::val_to_json(&vr), "removed": opt(removed.as_ref())},
               "t": {"get": tget, "ins_ok": tins_ok, "ins_val": enc::val_to_json(&t1.value),
                     "rem": trem, "rem_val": enc::val_to_json(&t2.value)}})
    }));
    match r {
        Ok(j) => j,
        Err(p) => json!({"e": "panic", "where": "value-op", "id": 0, "message": panic_message(&p), "case": case}),
    }
}

/// C19: the real `Kind` operations on a TLC-generated kind, next to the real `Value` operations
/// on one of its members.
pub fn kind_case(case: &J) -> J {
    use vrl::compiler::value::VrlValueArithmetic;
    let r = catch_unwind(AssertUnwindSafe(|| {
        let k = enc::json_to_kind(&case["k"]);
        let v = enc::json_to_val(&case["v"]);
        let p = enc::json_to_path(&case["p"]);
        let kx = enc::json_to_kind(&case["kx"]);
        let x = enc::json_to_val(&case["x"]);
        let k2 = enc::json_to_kind(&case["k2"]);
        let compact = case["compact"].as_bool().unwrap_or(false);

        let at_path = k.at_path(&p);
        let get = k.get(&p);
        let mut kins = k.clone();
        kins.insert(&p, kx.clone());
        let mut krem = k.clone();
        let removed_kind = krem.remove(&p, compact);
        let union = k.union(k2.clone());
        let mut merged = k.clone();
        merged.merge(k2.clone(), vrl::value::kind::merge::Strategy { collisions: vrl::value::kind::merge::CollisionStrategy::Overwrite });
        let sup = k.is_superset(&k2).is_ok();
        // consequences of "union contains its operands" + "the subtype test agrees with membership"
        let sup_refl = k.is_superset(&k).is_ok();
        let sup_union_l = union.is_superset(&k).is_ok();
        let sup_union_r = union.is_superset(&k2).is_ok();

        let vget = opt(v.get(&p));
        let mut vi = v.clone();
        vi.insert(&p, x.clone());
        let mut vr = v.clone();
        let vremoved = vr.remove(&p, compact);
        let (has_v2, v2) = match case.get("v2") {
            Some(j) if j.get("t").is_some() => (true, enc::json_to_val(j)),
            _ => (false, Value::Null),
        };
        let vmerge = if has_v2 {
            match v.clone().try_merge(v2.clone()) {
                Ok(m) => enc::val_to_json(&m),
                Err(_) => json!({"t": "none"}),
            }
        } else {
            json!({"t": "none"})
        };
        json!({"e": "kindop", "k": case["k"], "v": case["v"], "p": case["p"], "kx": case["kx"], "x": case["x"],
               "k2": case["k2"], "v2": if has_v2 { case["v2"].clone() } else { json!({"t": "none"}) }, "compact": compact,
               "rt": enc::kind_to_json(&k), "rtx": enc::kind_to_json(&kx), "rt2": enc::kind_to_json(&k2),
               "at_path": enc::kind_to_json(&at_path), "get": enc::kind_to_json(&get),
               "ins": enc::kind_to_json(&kins),
               "rem": {"kind": enc::kind_to_json(&krem), "removed": enc::kind_to_json(&removed_kind)},
               "union": enc::kind_to_json(&union), "merge": enc::kind_to_json(&merged), "sup": sup,
               "sup_refl": sup_refl, "sup_union_l": sup_union_l, "sup_union_r": sup_union_r,
               "vget": vget, "vins": enc::val_to_json(&vi),
               "vrem": {"val": enc::val_to_json(&vr), "removed": opt(vremoved.as_ref())},
               "vmerge": vmerge})
    }));
    match r {
        Ok(j) => j,
        Err(p) => json!({"e": "panic", "where": "kind-op", "id": 0, "message": panic_message(&p), "case": case}),
    }
}

// ---------------------------------------------------------------------------------------------
// C20: path syntax

fn chars_json(s: &str) -> J {
    J::Array(s.chars().map(|c| json!(c.to_string())).collect())
}

fn chars_to_string(j: &J) -> String {
    j.as_array().map(|a| a.iter().filter_map(|c| c.as_str()).collect::<String>()).unwrap_or_default()
}

fn segs_json(p: &vrl::path::OwnedValuePath) -> J {
    J::Array(
        p.segments
            .iter()
            .map(|s| match s {
                vrl::path::OwnedSegment::Field(f) => json!({"fc": chars_json(f.as_str())}),
                vrl::path::OwnedSegment::Index(i) => json!({"i": i}),
            })
            .collect(),
    )
}

fn parsed_value(r: Result<vrl::path::OwnedValuePath, vrl::path::PathParseError>) -> J {
    match r {
        Ok(p) => json!({"ok": true, "p": segs_json(&p)}),
        Err(_) => json!({"ok": false, "p": []}),
    }
}

fn parsed_target(r: Result<OwnedTargetPath, vrl::path::PathParseError>) -> J {
    match r {
        Ok(p) => json!({"ok": true, "pre": enc::prefix_str(p.prefix), "p": segs_json(&p.path)}),
        Err(_) => json!({"ok": false, "pre": "none", "p": []}),
    }
}

pub fn path_case(case: &J) -> J {
    use vrl::path::{OwnedValuePath, parse_target_path, parse_value_path};
    let r = catch_unwind(AssertUnwindSafe(|| {
        if case["kind"] == "path" {
            let mut p = OwnedValuePath::root();
            for s in case["p"].as_array().into_iter().flatten() {
                if let Some(fc) = s.get("fc") {
                    p.push_field(&chars_to_string(fc));
                } else {
                    p.push_index(s["i"].as_i64().unwrap() as isize);
                }
            }
            let text = String::from(&p);
            let parsed = parsed_value(parse_value_path(&text));
            let serde_v = parsed_value(OwnedValuePath::try_from(text.clone()));
            let mut tgt = vec![];
            for prefix in [PathPrefix::Event, PathPrefix::Metadata] {
                let tp = OwnedTargetPath { prefix, path: p.clone() };
                let ttext = tp.to_string();
                // the rendered text used as a VRL query expression
                let vrl = {
                    let fns = vrl::stdlib::all();
                    match vrl::compiler::compile(&ttext, &fns) {
                        Ok(c) => {
                            let q = &c.program.info().target_queries;
                            if q.len() == 1 {
                                json!({"ok": true, "pre": enc::prefix_str(q[0].prefix), "p": segs_json(&q[0].path)})
                            } else {
                                json!({"ok": false, "pre": "none", "p": [], "why": "not a single query"})
                            }
                        }
                        Err(_) => json!({"ok": false, "pre": "none", "p": [], "why": "rejected"}),
                    }
                };
                tgt.push(json!({"pre": enc::prefix_str(prefix), "text": chars_json(&ttext), "vrl": vrl,
                                "parsed": parsed_target(parse_target_path(&ttext)),
                                "serde": parsed_target(OwnedTargetPath::try_from(ttext.clone()))}));
            }
            json!({"e": "pathrt", "p": case["p"], "text": chars_json(&text), "parsed": parsed, "serde": serde_v, "tgt": tgt})
        } else {
            let text = chars_to_string(&case["t"]);
            let value = parsed_value(parse_value_path(&text));
            let target = parsed_target(parse_target_path(&text));
            // the same text as a VRL query expression
            let vrl = if text.starts_with('.') || text.starts_with('%') {
                let fns = vrl::stdlib::all();
                match vrl::compiler::compile(&text, &fns) {
                    Ok(c) => {
                        let q = &c.program.info().target_queries;
                        if q.len() == 1 {
                            json!({"ok": true, "pre": enc::prefix_str(q[0].prefix), "p": segs_json(&q[0].path)})
                        } else {
                            json!({"ok": false, "pre": "none", "p": [], "why": "not a single query"})
                        }
                    }
                    Err(_) => json!({"ok": false, "pre": "none", "p": [], "why": "rejected"}),
                }
            } else {
                json!({"ok": false, "pre": "none", "p": [], "why": "not a path expression"})
            };
            json!({"e": "pathtext", "t": case["t"], "value": value, "target": target, "vrl": vrl})
        }
    }));
    match r {
        Ok(j) => j,
        Err(p) => json!({"e": "panic", "where": "path-op", "id": 0, "message": panic_message(&p), "case": case}),
    }
}

// ---------------------------------------------------------------------------------------------
// C10 / C11: operators, through compiled programs (`.l OP .r`)

/// Operand / result encoding for spec/Ops.tla: integers always as four 16-bit limbs, floats as
/// IEEE-754 bit limbs, byte strings as byte sequences, timestamps as nanosecond limbs.
pub fn ops_json(v: &Value) -> J {
    match v {
        Value::Integer(i) => json!({"t": "int", "w": enc::limbs_u64(*i as u64)}),
        Value::Float(f) => json!({"t": "float", "b": enc::limbs_u64(f.into_inner().to_bits())}),
        Value::Bytes(b) => json!({"t": "bytes", "c": b.iter().map(|x| *x as u64).collect::<Vec<_>>()}),
        Value::Timestamp(t) => json!({"t": "ts", "w": enc::limbs_u64(t.timestamp_nanos_opt().unwrap_or(0) as u64)}),
        Value::Array(a) => json!({"t": "arr", "e": a.iter().map(ops_json).collect::<Vec<_>>()}),
        Value::Object(o) => {
            let mut m = serde_json::Map::new();
            for (k, x) in o {
                m.insert(k.to_string(), ops_json(x));
            }
            json!({"t": "obj", "m": J::Object(m)})
        }
        other => enc::val_to_json(other),
    }
}

pub fn ops_val(j: &J) -> Value {
    match j["t"].as_str().unwrap_or("") {
        "int" => Value::Integer(enc::limbs_to_u64(&j["w"]) as i64),
        "float" => Value::Float(ordered_float::NotNan::new(f64::from_bits(enc::limbs_to_u64(&j["b"]))).expect("NaN operand")),
        "bytes" => Value::Bytes(bytes::Bytes::from(j["c"].as_array().map(|a| a.iter().map(|x| x.as_u64().unwrap() as u8).collect::<Vec<u8>>()).unwrap_or_default())),
        "ts" => {
            use chrono::TimeZone;
            Value::Timestamp(chrono::Utc.timestamp_nanos(enc::limbs_to_u64(&j["w"]) as i64))
        }
        "arr" => Value::Array(j["e"].as_array().map(|a| a.iter().map(ops_val).collect()).unwrap_or_default()),
        "obj" => Value::Object(j["m"].as_object().map(|o| o.iter().map(|(k, v)| (k.as_str().into(), ops_val(v))).collect()).unwrap_or_default()),
        _ => enc::json_to_val(j),
    }
}

pub const OPS: [(&str, &str); 10] = [("add", "+"), ("sub", "-"), ("mul", "*"), ("div", "/"), ("eq", "=="), ("ne", "!="),
                                     ("lt", "<"), ("le", "<="), ("gt", ">"), ("ge", ">=")];

pub struct OpPrograms {
    progs: Vec<(String, vrl::compiler::Program)>,
}

impl OpPrograms {
    pub fn new() -> Self {
        let fns = vrl::stdlib::all();
        let mut progs = vec![];
        for (name, sym) in OPS {
            let src = if name == "eq" || name == "ne" {
                format!("[.l {sym} .r, null]")
            } else {
                format!("r, e = .l {sym} .r\n[r, e]")
            };
            let c = vrl::compiler::compile(&src, &fns).unwrap_or_else(|d| panic!("operator program {src} rejected: {d:?}"));
            progs.push((name.to_owned(), c.program));
        }
        Self { progs }
    }

    fn eval(&self, l: &Value, r: &Value) -> J {
        let tz = vrl::compiler::TimeZone::Named(chrono_tz::UTC);
        let mut out = serde_json::Map::new();
        for (name, prog) in &self.progs {
            let mut ev = std::collections::BTreeMap::new();
            ev.insert("l".into(), l.clone());
            ev.insert("r".into(), r.clone());
            let mut target = TargetValue { value: Value::Object(ev), metadata: Value::Object(Default::default()), secrets: Secrets::new() };
            let mut rt = vrl::compiler::runtime::Runtime::default();
            let res = catch_unwind(AssertUnwindSafe(|| rt.resolve(&mut target, prog, &tz)));
            let j = match res {
                Err(p) => json!({"k": "panic", "m": panic_message(&p)}),
                Ok(Err(t)) => json!({"k": "err", "m": t.to_string()}),
                Ok(Ok(Value::Array(a))) if a.len() == 2 => {
                    if a[1] == Value::Null { json!({"k": "ok", "v": ops_json(&a[0])}) } else { json!({"k": "err", "m": a[1].to_string()}) }
                }
                Ok(Ok(other)) => json!({"k": "odd", "m": other.to_string()}),
            };
            out.insert(name.clone(), j);
        }
        J::Object(out)
    }

    pub fn pair(&self, case: &J) -> J {
        let l = ops_val(&case["l"]);
        let r = ops_val(&case["r"]);
        let ops = self.eval(&l, &r);
        // the definition of mixed integer/float operations (and of integer division): the float
        // operation on the converted integer
        let conv = |v: &Value| match v {
            Value::Integer(i) => Value::Float(ordered_float::NotNan::new(*i as f64).unwrap()),
            other => other.clone(),
        };
        let numeric = |v: &Value| matches!(v, Value::Integer(_) | Value::Float(_));
        let convd = if numeric(&l) && numeric(&r) { self.eval(&conv(&l), &conv(&r)) } else { json!({"none": true}) };
        json!({"e": "pair", "l": case["l"], "r": case["r"], "ops": ops, "conv": convd})
    }
}
