//! Engine C: stdlib function contracts (C03), no panics (C04), prompt termination (C05).
//! `sigtable` exports every function's signature for the TLC generator; `calls` runs
//! TLC-generated call tuples in killable worker processes with a per-call deadline.
use std::io::{BufRead, BufReader, Write};
use std::panic::{AssertUnwindSafe, catch_unwind};
use std::process::{Child, Command, Stdio};
use std::sync::mpsc;
use std::time::{Duration, Instant};

use serde_json::{Value as J, json};
use vrl::compiler::runtime::{Runtime, Terminate};
use vrl::compiler::verif;
use vrl::compiler::{TargetValue, TimeZone};
use bytes::Bytes;
use vrl::value::{Secrets, Value};

use crate::core::panic_message;
use crate::enc;
use crate::render::quote;

const KINDS: [(&str, u16); 10] = [("bytes", 1 << 1), ("integer", 1 << 2), ("float", 1 << 3), ("boolean", 1 << 4), ("object", 1 << 5),
                                  ("array", 1 << 6), ("timestamp", 1 << 7), ("regex", 1 << 8), ("null", 1 << 9), ("undefined", 1 << 10)];

fn kind_names(bits: u16) -> Vec<&'static str> {
    KINDS.iter().filter(|(_, b)| bits & b != 0).map(|(n, _)| *n).collect()
}

/// Functions that need the network or are otherwise outside what a sealed sandbox can call.
const SKIP: [&str; 3] = ["http_request", "dns_lookup", "reverse_dns"];

pub fn sigtable() -> J {
    let mut fns = vec![];
    for f in vrl::stdlib::all() {
        if SKIP.contains(&f.identifier()) {
            continue;
        }
        let params: Vec<J> = f
            .parameters()
            .iter()
            .map(|p| {
                json!({"kw": p.keyword, "kinds": kind_names(p.kind), "required": p.required,
                       "enum": p.enum_variants.map(|vs| vs.iter().map(|v| v.value).collect::<Vec<_>>()).unwrap_or_default(),
                       "has_default": p.default.is_some()})
            })
            .collect();
        fns.push(json!({"f": f.identifier(), "params": params, "ret": kind_names(f.return_kind()), "closure": f.closure().is_some(),
                        "nexamples": f.examples().len()}));
    }
    json!({"fns": fns})
}

/// VRL literal text of a value (arrays / objects recursively).
pub fn literal(v: &Value) -> String {
    match v {
        Value::Null => "null".into(),
        Value::Boolean(b) => b.to_string(),
        Value::Integer(i) => {
            if *i == i64::MIN { "(-9223372036854775807 - 1)".into() } else { i.to_string() }
        }
        Value::Float(f) => {
            let x = f.into_inner();
            if x.is_infinite() {
                // no literal syntax for infinities: division of constants
                if x > 0.0 { "(1.0e308 * 10.0)".into() } else { "(-1.0e308 * 10.0)".into() }
            } else {
                let s = format!("{x:?}");
                if s.contains('.') || s.contains('e') { s } else { format!("{s}.0") }
            }
        }
        Value::Bytes(b) => quote(&String::from_utf8_lossy(b)),
        Value::Timestamp(t) => format!("t'{}'", t.to_rfc3339_opts(chrono::SecondsFormat::AutoSi, true)),
        Value::Regex(r) => format!("r'{}'", r.as_str().replace('\'', "\\'")),
        Value::Array(a) => format!("[{}]", a.iter().map(literal).collect::<Vec<_>>().join(", ")),
        Value::Object(o) => {
            if o.is_empty() {
                "{}".into()
            } else {
                format!("{{ {} }}", o.iter().map(|(k, v)| format!("{}: {}", quote(k.as_str()), literal(v))).collect::<Vec<_>>().join(", "))
            }
        }
    }
}

fn closure_for(f: &str) -> &'static str {
    match f {
        "for_each" => " -> |_k, _v| { null }",
        "filter" => " -> |_k, _v| { true }",
        "map_keys" => " -> |k| { k }",
        "map_values" => " -> |v| { v }",
        "replace_with" => " -> |_m| { \"x\" }",
        _ => "",
    }
}

fn value_kind_name(v: &Value) -> &'static str {
    match v {
        Value::Bytes(_) => "bytes",
        Value::Integer(_) => "integer",
        Value::Float(_) => "float",
        Value::Boolean(_) => "boolean",
        Value::Object(_) => "object",
        Value::Array(_) => "array",
        Value::Timestamp(_) => "timestamp",
        Value::Regex(_) => "regex",
        Value::Null => "null",
    }
}

/// Execute one call case (inside a worker process).
pub fn run_call(case: &J) -> J {
    let f = case["f"].as_str().unwrap_or("");
    let mut event = std::collections::BTreeMap::new();
    let mut parts = vec![];
    let mut wrong_runtime = false;
    for (i, a) in case["args"].as_array().into_iter().flatten().enumerate() {
        let v = enc::json_to_val(&a["v"]);
        let kw = a["kw"].as_str().unwrap_or("");
        let allowed: Vec<&str> = a["kinds"].as_array().map(|x| x.iter().filter_map(|k| k.as_str()).collect()).unwrap_or_default();
        if a["lit"].as_bool().unwrap_or(true) {
            parts.push(format!("{kw}: {}", literal(&v)));
        } else {
            if !allowed.contains(&value_kind_name(&v)) {
                wrong_runtime = true;
            }
            event.insert(format!("x{i}").into(), v);
            parts.push(format!("{kw}: .x{i}"));
        }
    }
    let call = format!("{f}({}){}", parts.join(", "), closure_for(f));
    let fns = vrl::stdlib::all();
    let tz = TimeZone::Named(chrono_tz::UTC);
    let ret = case["ret"].clone();
    let t0 = Instant::now();

    let variants = [("A", call.clone(), 0usize), ("B", format!("r, err = {call}\n[r, err]"), "r, err = ".len())];
    let mut rejected = json!([]);
    for (name, src, off) in variants {
        verif::start_compile_log();
        let compiled = catch_unwind(AssertUnwindSafe(|| vrl::compiler::compile(&src, &fns)));
        let records = verif::stop_compile_log();
        let compiled = match compiled {
            Err(p) => {
                return json!({"e": "call", "f": f, "src": src, "variant": name, "args": case["args"], "ret": ret, "wrong_runtime_arg": wrong_runtime,
                              "declared": {"kd": {"p": []}, "fal": true, "known": false},
                              "out": {"k": "panic", "m": panic_message(&p), "where": "compile"}, "ms": t0.elapsed().as_millis() as u64});
            }
            Ok(c) => c,
        };
        let c = match compiled {
            Ok(c) => c,
            Err(d) => {
                rejected = crate::core::diag_json(&d);
                continue;
            }
        };
        // the compiler's own record for the call expression (hook H2)
        let end = off + call.len();
        let rec = records.iter().rev().find(|r| r.start == off && r.end == end && r.kind == "function call");
        let declared = match rec {
            Some(r) => json!({"kd": enc::kind_to_json(r.type_def.kind()), "fal": r.type_def.is_fallible(), "known": true}),
            None => json!({"kd": {"p": []}, "fal": true, "known": false}),
        };
        let mut target = TargetValue { value: Value::Object(event.clone()), metadata: Value::Object(Default::default()), secrets: Secrets::new() };
        let mut rt = Runtime::default();
        let res = catch_unwind(AssertUnwindSafe(|| rt.resolve(&mut target, &c.program, &tz)));
        let out = match res {
            Err(p) => json!({"k": "panic", "m": panic_message(&p), "where": "run"}),
            Ok(Err(Terminate::Abort(e))) => json!({"k": "err", "m": e.to_string(), "abort": true}),
            Ok(Err(Terminate::Error(e))) => json!({"k": "err", "m": e.to_string()}),
            Ok(Ok(v)) => {
                if name == "B" {
                    match v {
                        Value::Array(a) if a.len() == 2 => {
                            if a[1] == Value::Null { json!({"k": "ok", "v": enc::val_to_json(&a[0])}) } else { json!({"k": "err", "m": a[1].to_string()}) }
                        }
                        other => json!({"k": "ok", "v": enc::val_to_json(&other)}),
                    }
                } else {
                    json!({"k": "ok", "v": enc::val_to_json(&v)})
                }
            }
        };
        return json!({"e": "call", "f": f, "src": src, "variant": name, "args": case["args"], "ret": ret, "wrong_runtime_arg": wrong_runtime,
                      "declared": declared, "out": out, "ms": t0.elapsed().as_millis() as u64});
    }
    json!({"e": "call", "f": f, "src": call, "variant": "rejected", "args": case["args"], "ret": ret, "wrong_runtime_arg": wrong_runtime,
           "declared": {"kd": {"p": []}, "fal": true, "known": false}, "out": {"k": "rejected"}, "diags": rejected, "ms": t0.elapsed().as_millis() as u64})
}

/// Worker process: one JSON case per input line, one JSON result per output line.
pub fn worker() {
    std::panic::set_hook(Box::new(|_| {}));
    let stdin = std::io::stdin();
    let stdout = std::io::stdout();
    for line in stdin.lock().lines().map_while(Result::ok) {
        if line.trim().is_empty() {
            continue;
        }
        let case: J = match serde_json::from_str(&line) {
            Ok(c) => c,
            Err(_) => continue,
        };
        let sub = case["worker"].as_str().unwrap_or("call");
        let res = match sub {
            "call" => run_call(&case),
            "diag" => diag_case(&case),
            "history" => history_case(&case),
            "eval" => eval_case(&case),
            "ddq" => ddq_case(&case),
            "conv" => conv_case(&case),
            other => json!({"e": "panic", "where": format!("unknown worker job {other}"), "id": 0, "message": ""}),
        };
        let mut o = stdout.lock();
        writeln!(o, "{res}").ok();
        o.flush().ok();
    }
}

struct Worker {
    child: Child,
    rx: mpsc::Receiver<String>,
    stderr_path: std::path::PathBuf,
}

static WORKER_SEQ: std::sync::atomic::AtomicU64 = std::sync::atomic::AtomicU64::new(0);

impl Worker {
    /// Why a dead worker died, from what the Rust runtime printed before aborting: memory or stack
    /// exhaustion (`alloc` / `stack`) or something else (`other`, with the text).
    fn cause_of_death(&self) -> (String, String) {
        let text = std::fs::read_to_string(&self.stderr_path).unwrap_or_default();
        let tail: String = text.chars().take(300).collect();
        let why = if text.contains("memory allocation of") || text.contains("capacity overflow") && text.contains("abort") {
            "alloc"
        } else if text.contains("overflowed its stack") {
            "stack"
        } else {
            "other"
        };
        (why.to_owned(), tail)
    }
    fn discard(mut self) {
        let _ = self.child.kill();
        let _ = self.child.wait();
        let _ = std::fs::remove_file(&self.stderr_path);
    }
}

fn spawn_worker(mem_kb: u64) -> Worker {
    let exe = std::env::current_exe().expect("exe");
    let stderr_path = std::env::current_dir().unwrap_or_else(|_| std::env::temp_dir()).join(format!(
        ".vh_worker_stderr.{}.{}",
        std::process::id(),
        WORKER_SEQ.fetch_add(1, std::sync::atomic::Ordering::Relaxed)
    ));
    let stderr = std::fs::File::create(&stderr_path).map(Stdio::from).unwrap_or_else(|_| Stdio::null());
    let mut child = Command::new("sh")
        .arg("-c")
        .arg(format!("ulimit -v {mem_kb}; exec \"$0\" callworker"))
        .arg(exe)
        .stdin(Stdio::piped())
        .stdout(Stdio::piped())
        .stderr(stderr)
        .spawn()
        .expect("spawn worker");
    let out = child.stdout.take().expect("stdout");
    let (tx, rx) = mpsc::channel();
    std::thread::spawn(move || {
        for l in BufReader::new(out).lines().map_while(Result::ok) {
            if tx.send(l).is_err() {
                break;
            }
        }
    });
    Worker { child, rx, stderr_path }
}

/// Run the cases of one shard through a killable worker; a call that does not answer within the
/// deadline is recorded as `timeout`, a worker that dies as `died` (C04 / C05 data, not tool errors).
pub fn run_shard(cases: &[J], w: &mut dyn Write, deadline: Duration, mem_kb: u64) {
    let mut worker = spawn_worker(mem_kb);
    for case in cases {
        let line = case.to_string();
        let sent = worker.child.stdin.as_mut().map(|s| writeln!(s, "{line}").and_then(|_| s.flush())).is_some_and(|r| r.is_ok());
        let mut answer = if sent { worker.rx.recv_timeout(deadline).ok() } else { None };
        if answer.is_none() && !matches!(worker.child.try_wait(), Ok(Some(_))) {
            // no answer in time: a busy machine must not look like a hang - once more, alone in a
            // fresh worker, with three times the deadline
            std::mem::replace(&mut worker, spawn_worker(mem_kb)).discard();
            let sent = worker.child.stdin.as_mut().map(|s| writeln!(s, "{line}").and_then(|_| s.flush())).is_some_and(|r| r.is_ok());
            answer = if sent { worker.rx.recv_timeout(deadline * 3).ok() } else { None };
        }
        match answer {
            Some(l) => {
                writeln!(w, "{l}").unwrap();
            }
            None => {
                let died = matches!(worker.child.try_wait(), Ok(Some(_)));
                let (why, stderr_tail) = if died { worker.cause_of_death() } else { ("none".to_owned(), String::new()) };
                let k = if died { "died" } else { "timeout" };
                let src = match case["src"].as_str() {
                    Some(s) => s.to_owned(),
                    None => format!("{}(...)", case["f"].as_str().unwrap_or("?")),
                };
                writeln!(w, "{}", json!({"e": "call", "f": case["f"], "src": src, "variant": "unknown", "args": case["args"], "ret": case["ret"],
                                          "wrong_runtime_arg": false, "declared": {"kd": {"p": []}, "fal": true, "known": false},
                                          "out": {"k": k, "why": why, "stderr": stderr_tail, "deadline_ms": deadline.as_millis() as u64}, "ms": deadline.as_millis() as u64})).unwrap();
                std::mem::replace(&mut worker, spawn_worker(mem_kb)).discard();
            }
        }
    }
    worker.discard();
}

// ---------------------------------------------------------------------------------------------
// C33 / C04: arbitrary source texts - compile, inspect and render every diagnostic, run if accepted

pub fn diag_case(case: &J) -> J {
    use vrl::diagnostic::{DiagnosticList, Formatter};
    let src = case["src"].as_str().unwrap_or("").to_owned();
    let fns = vrl::stdlib::all();
    let compiled = catch_unwind(AssertUnwindSafe(|| vrl::compiler::compile(&src, &fns)));
    let describe = |d: &DiagnosticList| -> J {
        J::Array(
            d.iter()
                .map(|x| {
                    json!({"sev": format!("{:?}", x.severity), "code": x.code,
                           "labels": x.labels.iter().map(|l| {
                               let (s, e) = (l.span.start(), l.span.end());
                               json!({"s": s, "e": e,
                                      "sb": s <= src.len() && src.is_char_boundary(s),
                                      "eb": e <= src.len() && src.is_char_boundary(e)})
                           }).collect::<Vec<_>>()})
                })
                .collect(),
        )
    };
    let render = |d: DiagnosticList, color: bool| -> String {
        let r = catch_unwind(AssertUnwindSafe(|| {
            let f = Formatter::new(&src, d);
            let f = if color { f.colored() } else { f };
            f.to_string().len()
        }));
        match r {
            Ok(_) => "ok".to_owned(),
            Err(p) => format!("panic: {}", panic_message(&p)),
        }
    };
    let id = case.get("id").cloned().unwrap_or(json!(0));
    match compiled {
        Err(p) => json!({"e": "diag", "id": id, "src": src, "len": src.len(), "compile": format!("panic: {}", panic_message(&p)), "accepted": false,
                         "diags": [], "render": "none", "render_color": "none", "run": "none"}),
        Ok(Err(d)) => {
            let dj = describe(&d);
            let r1 = render(d.clone(), false);
            let r2 = render(d, true);
            json!({"e": "diag", "id": id, "src": src, "len": src.len(), "compile": "ok", "accepted": false, "diags": dj, "render": r1, "render_color": r2, "run": "none"})
        }
        Ok(Ok(c)) => {
            let dj = describe(&c.warnings);
            let r1 = render(c.warnings.clone(), false);
            let r2 = render(c.warnings.clone(), true);
            let tz = TimeZone::Named(chrono_tz::UTC);
            let mut target = TargetValue { value: Value::Object(Default::default()), metadata: Value::Object(Default::default()), secrets: Secrets::new() };
            let mut rt = Runtime::default();
            let run = match catch_unwind(AssertUnwindSafe(|| rt.resolve(&mut target, &c.program, &tz))) {
                Ok(Ok(_)) => "ok".to_owned(),
                Ok(Err(_)) => "err".to_owned(),
                Err(p) => format!("panic: {}", panic_message(&p)),
            };
            json!({"e": "diag", "id": id, "src": src, "len": src.len(), "compile": "ok", "accepted": true, "diags": dj, "render": r1, "render_color": r2, "run": run})
        }
    }
}

// ---------------------------------------------------------------------------------------------
// C14 at function level: the outcome of a call must not depend on which calls the same thread
// evaluated before it (no hidden per-thread / static state).

const NONDET: [&str; 12] = ["now", "random_bool", "random_bytes", "random_float", "random_int", "uuid_v4", "uuid_v7", "get_hostname",
                            "get_env_var", "get_timezone_name", "uuid_from_friendly_id", "shannon_entropy"];

fn strip_volatile(mut j: J) -> J {
    if let Some(o) = j.as_object_mut() {
        o.remove("ms");
    }
    j
}

/// One job = all matrix calls of one function.
pub fn history_case(case: &J) -> J {
    let f = case["f"].as_str().unwrap_or("").to_owned();
    let calls: Vec<J> = case["calls"].as_array().cloned().unwrap_or_default();
    if NONDET.contains(&f.as_str()) {
        return json!({"e": "history", "f": f, "calls": 0, "excluded": calls.len(), "exempt": true, "diffs": []});
    }
    // baseline: each call alone on a fresh thread (a call that does not return in time is left out)
    let mut base: Vec<Option<J>> = vec![];
    let mut excluded = 0usize;
    for c in &calls {
        let (tx, rx) = mpsc::channel();
        let cc = c.clone();
        std::thread::spawn(move || {
            let _ = tx.send(strip_volatile(run_call(&cc)));
        });
        match rx.recv_timeout(Duration::from_millis(2500)) {
            Ok(r) if r["out"]["k"] != "panic" => base.push(Some(r)),
            _ => {
                excluded += 1;
                base.push(None);
            }
        }
    }
    // the same calls one after the other on ONE thread, forwards and backwards
    let mut diffs = vec![];
    for order in ["forward", "backward"] {
        let calls2 = calls.clone();
        let base2 = base.clone();
        let ord = order.to_owned();
        let h = std::thread::spawn(move || {
            let idx: Vec<usize> = if ord == "forward" { (0..calls2.len()).collect() } else { (0..calls2.len()).rev().collect() };
            let mut d = vec![];
            for i in idx {
                if let Some(b) = &base2[i] {
                    let r = strip_volatile(run_call(&calls2[i]));
                    if &r != b && d.len() < 5 {
                        d.push(json!({"order": ord, "src": b["src"], "alone": b["out"], "after_history": r["out"]}));
                    }
                }
            }
            d
        });
        diffs.extend(h.join().unwrap_or_default());
    }
    json!({"e": "history", "f": f, "calls": calls.len() - excluded, "excluded": excluded, "exempt": false, "diffs": diffs})
}

// ---------------------------------------------------------------------------------------------
// Generic evaluation job for the law engines (C24 C25 C28 C30 C31 C32 C36): named VRL expressions
// evaluated on one event; strings come back with their code points so that TLC can reason about them.

pub fn law_json(v: &Value) -> J {
    match v {
        Value::Bytes(b) => match std::str::from_utf8(b) {
            Ok(s) => json!({"t": "bytes", "s": s, "u": s.chars().map(|c| c as u32).collect::<Vec<_>>()}),
            Err(_) => json!({"t": "bytes", "c": b.iter().map(|x| *x as u64).collect::<Vec<_>>()}),
        },
        Value::Array(a) => json!({"t": "arr", "e": a.iter().map(law_json).collect::<Vec<_>>()}),
        Value::Object(o) => {
            let mut m = serde_json::Map::new();
            for (k, x) in o {
                m.insert(k.to_string(), law_json(x));
            }
            // keys in iteration (sorted) order with their code points
            json!({"t": "obj", "m": J::Object(m), "ks": o.keys().map(|k| json!({"s": k.as_str(), "u": k.as_str().chars().map(|c| c as u32).collect::<Vec<_>>()})).collect::<Vec<_>>()})
        }
        Value::Integer(i) => json!({"t": "int", "w": enc::limbs_u64(*i as u64), "n": if *i >= -(1 << 30) && *i <= (1 << 30) { json!(i) } else { json!("big") }}),
        other => enc::val_to_json(other),
    }
}

thread_local! {
    static PROGRAMS: std::cell::RefCell<std::collections::HashMap<String, Option<(vrl::compiler::Program, bool)>>> = std::cell::RefCell::new(std::collections::HashMap::new());
}

fn compile_expr_cached(expr: &str) -> Option<(vrl::compiler::Program, bool)> {
    PROGRAMS.with(|p| {
        let mut p = p.borrow_mut();
        if let Some(c) = p.get(expr) {
            return c.clone();
        }
        let fns = vrl::stdlib::all();
        let compiled = match vrl::compiler::compile(expr, &fns) {
            Ok(c) => Some((c.program, false)),
            Err(_) => vrl::compiler::compile(&format!("r, err = {expr}\n[r, err]"), &fns).ok().map(|c| (c.program, true)),
        };
        p.insert(expr.to_owned(), compiled.clone());
        compiled
    })
}

pub fn eval_case(case: &J) -> J {
    // C36: the same expressions under several configured timezones
    if let Some(tzs) = case.get("tzs").and_then(|t| t.as_array()) {
        let mut by = serde_json::Map::new();
        for tz in tzs {
            let mut c = case.clone();
            c.as_object_mut().unwrap().remove("tzs");
            c["tz"] = tz.clone();
            by.insert(tz.as_str().unwrap_or("UTC").to_owned(), eval_case(&c)["r"].clone());
        }
        return json!({"e": "tzcmp", "law": case["law"], "inp": case["inp"], "src": case["law"], "by_tz": J::Object(by)});
    }
    let tzname = case["tz"].as_str().unwrap_or("UTC");
    let tz = match tzname {
        "local" => TimeZone::Local,
        name => TimeZone::Named(name.parse().unwrap_or(chrono_tz::UTC)),
    };
    let event = enc::json_to_val(&case["event"]);
    let mut results = serde_json::Map::new();
    for (name, expr) in case["exprs"].as_object().into_iter().flatten() {
        let expr = expr.as_str().unwrap_or("null");
        // C21: serde round trip of an event field, outside the language (`@serde <field>`)
        if let Some(field) = expr.strip_prefix("@serde ") {
            let v = event.as_object().and_then(|o| o.get(field)).cloned().unwrap_or(Value::Null);
            let r = match catch_unwind(AssertUnwindSafe(|| {
                serde_json::to_string(&v).map_err(|e| e.to_string()).and_then(|t| serde_json::from_str::<Value>(&t).map_err(|e| e.to_string()))
            })) {
                Err(p) => json!({"k": "panic", "m": panic_message(&p)}),
                Ok(Err(e)) => json!({"k": "err", "m": e}),
                Ok(Ok(back)) => json!({"k": "ok", "v": law_json(&back)}),
            };
            results.insert(name.clone(), r);
            continue;
        }
        let r = match compile_expr_cached(expr) {
            None => json!({"k": "rejected"}),
            Some((prog, wrapped)) => {
                let mut target = TargetValue { value: event.clone(), metadata: Value::Object(Default::default()), secrets: Secrets::new() };
                let mut rt = Runtime::default();
                match catch_unwind(AssertUnwindSafe(|| rt.resolve(&mut target, &prog, &tz))) {
                    Err(p) => json!({"k": "panic", "m": panic_message(&p)}),
                    Ok(Err(e)) => json!({"k": "err", "m": e.to_string()}),
                    Ok(Ok(v)) => {
                        if wrapped {
                            match v {
                                Value::Array(a) if a.len() == 2 && a[1] == Value::Null => json!({"k": "ok", "v": law_json(&a[0])}),
                                Value::Array(a) if a.len() == 2 => json!({"k": "err", "m": a[1].to_string()}),
                                other => json!({"k": "ok", "v": law_json(&other)}),
                            }
                        } else {
                            json!({"k": "ok", "v": law_json(&v)})
                        }
                    }
                }
            }
        };
        results.insert(name.clone(), r);
    }
    json!({"e": "law", "law": case["law"], "inp": case["inp"], "tz": tzname, "src": case["law"], "r": J::Object(results)})
}


// ---------------------------------------------------------------------------------------------
// C35: the embedder's `Conversion` API: name -> conversion, text -> value, under several default timezones

pub fn conv_case(case: &J) -> J {
    use vrl::compiler::conversion::Conversion;
    let name = case["name"].as_str().unwrap_or("").to_owned();
    let text: Vec<u8> = match case["text"].get("s") {
        Some(s) => s.as_str().unwrap_or("").as_bytes().to_vec(),
        None => case["text"]["c"].as_array().map(|a| a.iter().map(|x| x.as_u64().unwrap_or(0) as u8).collect()).unwrap_or_default(),
    };
    let mut by = serde_json::Map::new();
    for tz in case["tzs"].as_array().into_iter().flatten() {
        let tzname = tz.as_str().unwrap_or("UTC");
        let zone = TimeZone::Named(tzname.parse().unwrap_or(chrono_tz::UTC));
        let r = catch_unwind(AssertUnwindSafe(|| match Conversion::parse(&name, zone) {
            Err(e) => json!({"k": "unknown", "m": e.to_string()}),
            Ok(c) => match c.convert::<Value>(Bytes::from(text.clone())) {
                Err(e) => json!({"k": "err", "m": e.to_string()}),
                Ok(v) => {
                    let mut j = json!({"k": "ok", "v": law_json(&v)});
                    if let Value::Timestamp(t) = &v {
                        // the instant by plain arithmetic on the epoch count (no calendar involved)
                        let secs = t.timestamp();
                        j["inst"] = json!({"days": secs.div_euclid(86400), "sod": secs.rem_euclid(86400), "ns": t.timestamp_subsec_nanos()});
                    }
                    j
                }
            },
        }));
        by.insert(tzname.to_owned(), r.unwrap_or_else(|p| json!({"k": "panic", "m": panic_message(&p)})));
    }
    json!({"e": "law", "law": case["law"], "inp": case["inp"], "src": case["law"], "r": J::Object(by)})
}

// ---------------------------------------------------------------------------------------------
// C30: datadog search query text -> tree -> lucene text -> tree

pub fn ddq_case(case: &J) -> J {
    use vrl::datadog_search_syntax::QueryNode;
    let q = case["q"].as_str().unwrap_or("").to_owned();
    let r = catch_unwind(AssertUnwindSafe(|| {
        let first = q.parse::<QueryNode>();
        match first {
            Err(_) => json!({"k": "ok", "parsed": false, "tree": "", "lucene": "", "reparsed": false, "tree2": "", "same": false}),
            Ok(n) => {
                let lucene = n.to_lucene();
                match lucene.parse::<QueryNode>() {
                    Err(e) => json!({"k": "ok", "parsed": true, "tree": format!("{n:?}"), "lucene": lucene, "reparsed": false, "tree2": format!("{e}"), "same": false}),
                    Ok(n2) => json!({"k": "ok", "parsed": true, "tree": format!("{n:?}"), "lucene": lucene, "reparsed": true, "tree2": format!("{n2:?}"), "same": n == n2}),
                }
            }
        }
    }));
    // circumstances visible in the parsed tree (they name a finding): a term / prefix / wildcard value
    // that contains a space, a negation directly under a negation
    let shape = match &r {
        Ok(j) => {
            let tree = j["tree"].as_str().unwrap_or("");
            let spaced = regex::Regex::new(r#"(value|prefix|wildcard): "[^"]* [^"]*""#).unwrap().is_match(tree);
            if tree.contains("NegatedNode { node: NegatedNode") {
                json!("double-negation")
            } else if spaced {
                json!("term-value-with-space")
            } else {
                case["shape"].clone()
            }
        }
        Err(_) => case["shape"].clone(),
    };
    let case = &json!({"shape": shape});
    match r {
        Ok(j) => json!({"e": "law", "law": {"name": "dd_roundtrip", "fn": "datadog_search"}, "inp": {"q": q, "shape": case["shape"]}, "src": q, "r": {"rt": j}}),
        Err(p) => json!({"e": "law", "law": {"name": "dd_roundtrip", "fn": "datadog_search"}, "inp": {"q": q, "shape": case["shape"]}, "src": q,
                         "r": {"rt": {"k": "panic", "m": panic_message(&p), "parsed": false, "tree": "", "lucene": "", "reparsed": false, "tree2": "", "same": false}}}),
    }
}
