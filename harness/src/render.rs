//! Pretty-printer from the specification's AST (spec/VrlCore.tla) to VRL source text.
//! Every node is given its byte span in the produced text so that the records of the real
//! compiler (hook H2: span -> type definition / constant) can be attached to AST nodes.
use serde_json::{Map, Value as J, json};

use crate::enc;

fn needs_quote(f: &str) -> bool {
    f.is_empty()
        || !f
            .chars()
            .all(|c| c.is_ascii_alphanumeric() || c == '_' || c == '@')
        || f.chars().next().is_some_and(|c| c.is_ascii_digit())
}

pub fn quote(s: &str) -> String {
    let mut o = String::from("\"");
    for c in s.chars() {
        match c {
            '\\' => o.push_str("\\\\"),
            '"' => o.push_str("\\\""),
            '\n' => o.push_str("\\n"),
            '\t' => o.push_str("\\t"),
            '\r' => o.push_str("\\r"),
            '{' => o.push_str("\\{"),
            '}' => o.push_str("\\}"),
            c => o.push(c),
        }
    }
    o.push('"');
    o
}

pub fn render_path_segments(p: &J, out: &mut String, first_dot: bool) {
    let mut first = true;
    if let Some(a) = p.as_array() {
        for s in a {
            if let Some(f) = s.get("f") {
                let f = f.as_str().unwrap();
                if !(first && !first_dot) {
                    out.push('.');
                }
                if needs_quote(f) {
                    out.push_str(&quote(f));
                } else {
                    out.push_str(f);
                }
            } else {
                out.push_str(&format!("[{}]", s["i"].as_i64().unwrap()));
            }
            first = false;
        }
    }
}

fn render_ext(pre: &str, p: &J, out: &mut String) {
    out.push(if pre == "event" { '.' } else { '%' });
    // `.a.b`, `.[0]`? -> VRL writes index on root as `.[0]`
    render_path_segments(p, out, false);
}

fn render_target(tg: &J, out: &mut String) {
    match tg["tk"].as_str().unwrap() {
        "noop" => out.push('_'),
        "var" => {
            out.push_str(tg["x"].as_str().unwrap());
            render_path_segments(&tg["p"], out, true);
        }
        "ext" => render_ext(tg["pre"].as_str().unwrap(), &tg["p"], out),
        other => panic!("target kind {other}"),
    }
}

pub fn render_literal(v: &J) -> String {
    match v["t"].as_str().unwrap() {
        "null" => "null".into(),
        "bool" => v["v"].as_bool().unwrap().to_string(),
        "int" => {
            let val = enc::json_to_val(v);
            val.to_string()
        }
        "float" => {
            let val = enc::json_to_val(v);
            let s = val.to_string();
            if s.contains('.') || s.contains('e') || s.contains("inf") { s } else { format!("{s}.0") }
        }
        "bytes" => quote(v["s"].as_str().unwrap()),
        "ts" => format!("t'{}'", v["s"].as_str().unwrap()),
        "regex" => format!("r'{}'", v["s"].as_str().unwrap()),
        other => panic!("literal {other}"),
    }
}

fn opsym(o: &str) -> &'static str {
    match o {
        "err" => "??",
        "or" => "||",
        "and" => "&&",
        "add" => "+",
        "sub" => "-",
        "mul" => "*",
        "div" => "/",
        "eq" => "==",
        "ne" => "!=",
        "lt" => "<",
        "le" => "<=",
        "gt" => ">",
        "ge" => ">=",
        "merge" => "|",
        other => panic!("opcode {other}"),
    }
}

fn seq<'a>(j: &'a J) -> &'a [J] {
    j.as_array().map(|v| v.as_slice()).unwrap_or(&[])
}

fn render_seq(items: &[J], sep: &str, out: &mut String) -> Vec<J> {
    let mut res = vec![];
    for (i, it) in items.iter().enumerate() {
        if i > 0 {
            out.push_str(sep);
        }
        res.push(render(it, out));
    }
    res
}

/// Render `n` into `out`; returns a copy of the node with `sp: [start, end]` on every node.
pub fn render(n: &J, out: &mut String) -> J {
    let start = out.len();
    let mut m: Map<String, J> = n.as_object().expect("node").clone();
    let k = n["k"].as_str().expect("node kind").to_owned();
    match k.as_str() {
        "lit" => out.push_str(&render_literal(&n["v"])),
        "noop" => out.push_str("null"), // never generated; placeholder
        "var" => out.push_str(n["x"].as_str().unwrap()),
        "qv" => {
            out.push_str(n["x"].as_str().unwrap());
            render_path_segments(&n["p"], out, true);
        }
        "q" => render_ext(n["pre"].as_str().unwrap(), &n["p"], out),
        "group" => {
            out.push('(');
            m.insert("e".into(), render(&n["e"], out));
            out.push(')');
        }
        "block" => {
            out.push_str("{ ");
            m.insert("s".into(), J::Array(render_seq(seq(&n["s"]), "; ", out)));
            out.push_str(" }");
        }
        "arr" => {
            out.push('[');
            m.insert("e".into(), J::Array(render_seq(seq(&n["e"]), ", ", out)));
            out.push(']');
        }
        "obj" => {
            let ks = seq(&n["ks"]);
            let es = seq(&n["es"]);
            if ks.is_empty() {
                out.push_str("{}");
            } else {
                out.push_str("{ ");
                let mut res = vec![];
                for (i, (kk, e)) in ks.iter().zip(es.iter()).enumerate() {
                    if i > 0 {
                        out.push_str(", ");
                    }
                    out.push_str(&quote(kk.as_str().unwrap()));
                    out.push_str(": ");
                    res.push(render(e, out));
                }
                out.push_str(" }");
                m.insert("es".into(), J::Array(res));
            }
        }
        "if" => {
            out.push_str("if ");
            let c = seq(&n["c"]);
            if c.len() == 1 {
                m.insert("c".into(), J::Array(vec![render(&c[0], out)]));
            } else {
                out.push('(');
                m.insert("c".into(), J::Array(render_seq(c, "; ", out)));
                out.push(')');
            }
            out.push_str(" { ");
            m.insert("t".into(), J::Array(render_seq(seq(&n["t"]), "; ", out)));
            out.push_str(" }");
            if n["he"].as_bool().unwrap_or(false) {
                out.push_str(" else { ");
                m.insert("e".into(), J::Array(render_seq(seq(&n["e"]), "; ", out)));
                out.push_str(" }");
            }
        }
        "op" => {
            m.insert("l".into(), render(&n["l"], out));
            out.push(' ');
            out.push_str(opsym(n["o"].as_str().unwrap()));
            out.push(' ');
            m.insert("r".into(), render(&n["r"], out));
        }
        "not" => {
            out.push('!');
            m.insert("e".into(), render(&n["e"], out));
        }
        "asg" => {
            render_target(&n["tg"], out);
            out.push_str(" = ");
            m.insert("e".into(), render(&n["e"], out));
        }
        "asg2" => {
            render_target(&n["ok"], out);
            out.push_str(", ");
            render_target(&n["er"], out);
            out.push_str(" = ");
            m.insert("e".into(), render(&n["e"], out));
        }
        "abort" => {
            out.push_str("abort");
            if n["hm"].as_bool().unwrap_or(false) {
                out.push(' ');
                m.insert("m".into(), render(&n["m"], out));
            }
        }
        "ret" => {
            out.push_str("return ");
            m.insert("e".into(), render(&n["e"], out));
        }
        "call" => {
            out.push_str(n["f"].as_str().unwrap());
            if n["bang"].as_bool().unwrap_or(false) {
                out.push('!');
            }
            out.push('(');
            let mut first = true;
            if let Some(q) = n.get("q") {
                render_target(q, out);
                first = false;
            }
            let mut res = vec![];
            for a in seq(&n["a"]) {
                if !first {
                    out.push_str(", ");
                }
                first = false;
                res.push(render(a, out));
            }
            m.insert("a".into(), J::Array(res));
            out.push(')');
            if let Some(cl) = n.get("cl") {
                out.push_str(" -> |");
                let ps: Vec<&str> = seq(&cl["p"])
                    .iter()
                    .map(|p| match p.as_str().unwrap() {
                        "" => "_", // placeholder parameter: bound to nothing
                        x => x,
                    })
                    .collect();
                out.push_str(&ps.join(", "));
                out.push_str("| { ");
                let body = render_seq(seq(&cl["s"]), "; ", out);
                out.push_str(" }");
                m.insert("cl".into(), json!({"p": cl["p"], "s": body}));
            }
        }
        other => panic!("unknown node kind {other}"),
    }
    m.insert("sp".into(), json!([start, out.len()]));
    J::Object(m)
}

/// Render a whole program (sequence of root statements), one statement per line.
pub fn render_program(stmts: &[J]) -> (String, Vec<J>) {
    let mut out = String::new();
    let mut res = vec![];
    for (i, s) in stmts.iter().enumerate() {
        if i > 0 {
            out.push('\n');
        }
        res.push(render(s, &mut out));
    }
    (out, res)
}

/// Apply `f` to every node of an annotated AST (children first), rebuilding it.
pub fn map_nodes(n: &J, f: &mut dyn FnMut(&mut Map<String, J>)) -> J {
    let mut m: Map<String, J> = n.as_object().expect("node").clone();
    for key in ["e", "l", "r", "m"] {
        if let Some(c) = m.get(key).cloned() {
            if c.is_object() && c.get("k").is_some() {
                m.insert(key.into(), map_nodes(&c, f));
            } else if let Some(a) = c.as_array() {
                if a.iter().all(|x| x.get("k").is_some()) {
                    m.insert(key.into(), J::Array(a.iter().map(|x| map_nodes(x, f)).collect()));
                }
            }
        }
    }
    for key in ["s", "es", "c", "t", "a"] {
        if let Some(c) = m.get(key).cloned() {
            if let Some(a) = c.as_array() {
                if a.iter().all(|x| x.get("k").is_some()) {
                    m.insert(key.into(), J::Array(a.iter().map(|x| map_nodes(x, f)).collect()));
                }
            }
        }
    }
    if let Some(cl) = m.get("cl").cloned() {
        let body: Vec<J> = seq(&cl["s"]).iter().map(|x| map_nodes(x, f)).collect();
        m.insert("cl".into(), json!({"p": cl["p"], "s": body}));
    }
    f(&mut m);
    J::Object(m)
}
