//! Engine A: replay TLC-generated programs through the real compiler and interpreter and
//! record what they did (spec -> impl), in the event vocabulary of spec/TraceCore.tla.
use std::collections::{BTreeMap, BTreeSet};
use std::panic::{AssertUnwindSafe, catch_unwind};

use serde_json::{Map, Value as J, json};
use vrl::compiler::runtime::{Runtime, Terminate};
use vrl::compiler::state::ExternalEnv;
use vrl::compiler::verif::{self, Event, Outcome};
use vrl::compiler::{CompileConfig, ExpressionError, Program, TimeZone, compile_with_external};
use vrl::diagnostic::DiagnosticList;
use vrl::value::{Kind, Value};

use crate::enc;
use crate::render;
use crate::targets::{FaultMode, LoggingTarget};

pub struct Compiled {
    pub program: Program,
    pub prog_event: J,
    pub warnings: DiagnosticList,
}

fn walk(n: &J, f: &mut dyn FnMut(&J)) {
    f(n);
    if let Some(o) = n.as_object() {
        for (key, v) in o {
            if key == "st" || key == "v" || key == "p" || key == "tg" || key == "q" || key == "ok" || key == "er" {
                continue;
            }
            match v {
                J::Object(_) if v.get("k").is_some() => walk(v, f),
                J::Object(_) if key == "cl" => {
                    for s in v["s"].as_array().into_iter().flatten() {
                        walk(s, f);
                    }
                }
                J::Array(a) => {
                    for x in a {
                        if x.get("k").is_some() {
                            walk(x, f);
                        }
                    }
                }
                _ => {}
            }
        }
    }
}

pub fn diag_json(d: &DiagnosticList) -> J {
    J::Array(
        d.iter()
            .map(|x| {
                json!({
                    "code": x.code,
                    "severity": format!("{:?}", x.severity),
                    "message": x.message,
                    "labels": x.labels.iter().map(|l| json!({"start": l.span.start(), "end": l.span.end(), "primary": l.primary, "message": l.message})).collect::<Vec<_>>(),
                })
            })
            .collect(),
    )
}

pub fn external_env(case: &J) -> ExternalEnv {
    match case.get("ext") {
        Some(ext) if ext.is_object() => ExternalEnv::new_with_kind(
            ext.get("target").map(enc::json_to_kind).unwrap_or_else(|| Kind::object(vrl::value::kind::Collection::any())),
            ext.get("meta").map(enc::json_to_kind).unwrap_or_else(|| Kind::object(vrl::value::kind::Collection::any())),
        ),
        _ => ExternalEnv::default(),
    }
}

pub fn compile_config(case: &J) -> CompileConfig {
    let mut config = CompileConfig::default();
    for ro in case["ro"].as_array().into_iter().flatten() {
        config.set_read_only_path(enc::json_to_tpath(ro), ro["rec"].as_bool().unwrap_or(false));
    }
    config
}

/// Compile one generated case with the real compiler; Err carries the `reject` event.
pub fn compile_case(case: &J) -> Result<Compiled, J> {
    let id = case["id"].clone();
    let stmts: Vec<J> = case["ast"].as_array().cloned().unwrap_or_default();
    let (src, with_spans) = render::render_program(&stmts);

    let fns = vrl::stdlib::all();
    let external = external_env(case);
    let config = compile_config(case);

    verif::start_compile_log();
    let result = catch_unwind(AssertUnwindSafe(|| compile_with_external(&src, &fns, &external, config)));
    let records = verif::stop_compile_log();

    let result = match result {
        Ok(r) => r,
        Err(p) => {
            return Err(json!({"e": "panic", "id": id, "src": src, "where": "compile", "message": panic_message(&p)}));
        }
    };
    let compiled = match result {
        Ok(c) => c,
        Err(diags) => {
            return Err(json!({"e": "reject", "id": id, "src": src, "diags": diag_json(&diags)}));
        }
    };

    // span -> last compile_expr record
    let mut by_span: BTreeMap<(usize, usize), &verif::Compiled> = BTreeMap::new();
    for r in &records {
        by_span.insert((r.start, r.end), r);
    }
    let mut unannotated = 0usize;
    let annotated: Vec<J> = with_spans
        .iter()
        .map(|n| {
            render::map_nodes(n, &mut |m: &mut Map<String, J>| {
                let sp = m.remove("sp");
                if let Some(sp) = sp {
                    let key = (sp[0].as_u64().unwrap() as usize, sp[1].as_u64().unwrap() as usize);
                    if let Some(r) = by_span.get(&key) {
                        let td = &r.type_def;
                        let (hc, c) = match &r.constant {
                            Some(v) => (true, enc::val_to_json(v)),
                            None => (false, json!({"t": "null"})),
                        };
                        m.insert(
                            "st".into(),
                            json!({"kd": enc::kind_to_json(td.kind()), "fal": td.is_fallible(),
                                   "ret": enc::kind_to_json(td.returns()), "hc": hc, "c": c, "hk": r.kind}),
                        );
                    } else {
                        unannotated += 1;
                    }
                }
            })
        })
        .collect();

    let mut has_bang = false;
    let mut has_abort = false;
    let mut params: BTreeSet<String> = BTreeSet::new();
    let mut assigned: BTreeSet<String> = BTreeSet::new();
    for s in &annotated {
        walk(s, &mut |n: &J| {
            match n["k"].as_str().unwrap_or("") {
                "call" => {
                    if n["bang"].as_bool().unwrap_or(false) {
                        has_bang = true;
                    }
                    if let Some(cl) = n.get("cl") {
                        for p in cl["p"].as_array().into_iter().flatten() {
                            params.insert(p.as_str().unwrap().to_owned());
                        }
                    }
                }
                "abort" => has_abort = true,
                "asg" => {
                    if n["tg"]["tk"] == "var" {
                        assigned.insert(n["tg"]["x"].as_str().unwrap().to_owned());
                    }
                }
                "asg2" => {
                    for t in ["ok", "er"] {
                        if n[t]["tk"] == "var" {
                            assigned.insert(n[t]["x"].as_str().unwrap().to_owned());
                        }
                    }
                }
                _ => {}
            }
        });
    }
    let cparams: Vec<String> = params.difference(&assigned).cloned().collect();

    let info = compiled.program.info();
    let fin = compiled.program.final_type_info();
    let prog_event = json!({
        "e": "prog", "id": id, "src": src, "ast": annotated,
        "info": {"fallible": info.fallible, "abortable": info.abortable,
                 "queries": info.target_queries.iter().map(enc::tpath_to_json).collect::<Vec<_>>(),
                 "assignments": info.target_assignments.iter().map(enc::tpath_to_json).collect::<Vec<_>>()},
        "final": {"result": enc::kind_to_json(fin.result.kind()), "returns": enc::kind_to_json(fin.result.returns()),
                  "fallible": fin.result.is_fallible(),
                  "target": enc::kind_to_json(fin.state.external.target_kind()),
                  "metadata": enc::kind_to_json(fin.state.external.metadata_kind())},
        "has_bang": has_bang, "has_abort": has_abort, "cparams": cparams,
        "ro": case.get("ro").cloned().unwrap_or_else(|| json!([])),
        "unannotated": unannotated,
        "warnings": diag_json(&compiled.warnings),
    });
    Ok(Compiled { program: compiled.program, prog_event, warnings: compiled.warnings })
}

pub fn panic_message(p: &Box<dyn std::any::Any + Send>) -> String {
    if let Some(s) = p.downcast_ref::<&str>() {
        (*s).to_owned()
    } else if let Some(s) = p.downcast_ref::<String>() {
        s.clone()
    } else {
        "panic".to_owned()
    }
}

fn vars_json(v: &[(String, Value)]) -> J {
    let mut m = Map::new();
    for (k, val) in v {
        m.insert(k.clone(), enc::val_to_json(val));
    }
    J::Object(m)
}

fn outcome_json(o: &Outcome) -> J {
    match o {
        Outcome::Ok(v) => json!({"o": "ok", "v": enc::val_to_json(v)}),
        Outcome::Error(m) => json!({"o": "err", "m": m}),
        Outcome::Abort(m) => json!({"o": "abort", "hm": m.is_some(), "m": m.clone().unwrap_or_default()}),
        Outcome::Return(v) => json!({"o": "ret", "v": enc::val_to_json(v)}),
        Outcome::Fallible => json!({"o": "fallible"}),
        Outcome::Missing => json!({"o": "missing"}),
    }
}

pub struct RunResult {
    pub events: Vec<J>,
    pub end: J,
}

/// Run a compiled program once against a logging (optionally faulting) target; the returned
/// events are `start`, the interleaved `T` / `enter` / `exit` events and `end`.
pub fn run_once(program: &Program, ev: &J, meta: &J, schedule: &[usize], mode: FaultMode, tz: &TimeZone, detail: bool) -> RunResult {
    let mut runtime = Runtime::default();
    run_with(&mut runtime, program, ev, meta, schedule, mode, tz, detail)
}

/// Like `run_once` but on a caller-owned runtime (C14: reuse after `clear()`).
#[allow(clippy::too_many_arguments)]
pub fn run_with(runtime: &mut Runtime, program: &Program, ev: &J, meta: &J, schedule: &[usize], mode: FaultMode, tz: &TimeZone, detail: bool) -> RunResult {
    let mut target = LoggingTarget::new(enc::json_to_val(ev), enc::json_to_val(meta), schedule.to_vec(), mode);
    verif::start_trace(detail);
    let result = catch_unwind(AssertUnwindSafe(|| runtime.resolve(&mut target, program, tz)));
    let trace = verif::stop_trace();
    let tlog = target.log.take();

    let mode_s = match mode {
        FaultMode::None => "plain",
        FaultMode::Fault => "fault",
        FaultMode::Skip => "skip",
    };
    let mut events = vec![json!({"e": "start", "ev": ev, "meta": meta, "mode": mode_s, "sched": schedule})];
    let mut cur_vars: Vec<(String, Value)> = vec![];
    let mut ti = 0usize;
    for (i, e) in trace.iter().enumerate() {
        while ti < tlog.len() && tlog[ti].0 <= i {
            events.push(tlog[ti].1.clone());
            ti += 1;
        }
        match e {
            Event::Enter { kind, detail, vars, .. } => {
                let mut m = Map::new();
                m.insert("e".into(), json!("enter"));
                m.insert("k".into(), json!(kind));
                if let Some(d) = detail {
                    m.insert("d".into(), json!(d));
                }
                if let Some(v) = vars {
                    cur_vars = v.clone();
                    m.insert("vars".into(), vars_json(v));
                }
                events.push(J::Object(m));
            }
            Event::Exit { kind, outcome, vars, .. } => {
                let mut m = Map::new();
                m.insert("e".into(), json!("exit"));
                m.insert("k".into(), json!(kind));
                m.insert("out".into(), outcome_json(outcome));
                if let Some(v) = vars {
                    cur_vars = v.clone();
                    m.insert("vars".into(), vars_json(v));
                }
                events.push(J::Object(m));
            }
        }
    }
    while ti < tlog.len() {
        events.push(tlog[ti].1.clone());
        ti += 1;
    }
    let faulted = mode != FaultMode::None && tlog.iter().any(|(_, e)| e["fault"] == true);
    let end = match result {
        Err(p) => json!({"e": "panic", "where": "run", "message": panic_message(&p)}),
        Ok(r) => {
            let res = match &r {
                Ok(v) => json!({"r": "ok", "v": enc::val_to_json(v)}),
                Err(Terminate::Abort(ExpressionError::Abort { message, .. })) => {
                    json!({"r": "abort", "hm": message.is_some(), "m": message.clone().unwrap_or_default()})
                }
                Err(Terminate::Abort(other)) => json!({"r": "abort", "hm": true, "m": other.to_string(), "odd": true}),
                Err(Terminate::Error(e)) => json!({"r": "error", "m": e.to_string()}),
            };
            json!({"e": "end", "res": res, "ev": enc::val_to_json(&target.inner.value),
                   "meta": enc::val_to_json(&target.inner.metadata), "vars": vars_json(&cur_vars),
                   "faulted": faulted, "nan": false, "tops": tlog.len()})
        }
    };
    events.push(end.clone());
    RunResult { events, end }
}

pub fn default_events() -> Vec<J> {
    vec![json!({"ev": {"t": "obj", "m": {}}, "meta": {"t": "obj", "m": {}}})]
}

/// C34: for every unused-result warning that covers a whole root statement, delete the statement,
/// recompile and run both programs on every event.  Emits one `unused` (or `unjudged`) event per
/// such warning, in the vocabulary of spec/TraceUnused.tla.
pub fn unused_case(case: &J, events: &[J], tz: &TimeZone) -> Vec<J> {
    let mut out = vec![];
    let stmts: Vec<J> = case["ast"].as_array().cloned().unwrap_or_default();
    let (src, with_spans) = render::render_program(&stmts);
    let c = match compile_case(case) {
        Ok(c) => c,
        Err(ev) => return vec![ev],
    };
    let annotated = c.prog_event["ast"].as_array().cloned().unwrap_or_default();
    let mut nwarn = 0usize;
    for w in c.warnings.iter() {
        if w.message.starts_with("unused variable") || !w.message.starts_with("unused") {
            continue;
        }
        nwarn += 1;
        let Some(l) = w.labels.first() else { continue };
        let (ws, we) = (l.span.start(), l.span.end());
        // the flagged statement: a root statement, or a statement of a block that has others
        let mut path: Option<Vec<usize>> = None;
        find_stmt(&with_spans, ws, we, &mut vec![], &mut path);
        let Some(path) = path else {
            // the warning covers a sub-expression (array element, object member, argument ...): cut its text out of the source,
            // together with one neighbouring comma, and judge the edited text like a deleted statement (weak form: whenever the
            // original succeeds the edited program must succeed with the same final event)
            match textual_cut(case, &src, ws, we) {
                Some((edited, eprog)) => {
                    let mut runs = vec![];
                    for e in events {
                        let a = run_once(&c.program, &e["ev"], &e["meta"], &[], FaultMode::None, tz, false);
                        let b = run_once(&eprog, &e["ev"], &e["meta"], &[], FaultMode::None, tz, false);
                        runs.push(json!({"ev": e["ev"], "meta": e["meta"], "orig": a.end, "edit": b.end}));
                    }
                    // names the circumstance (not the verdict): the flagged text follows a closure-taking call on its line
                    let line_start = src[..ws].rfind('\n').map_or(0, |i| i + 1);
                    let desc = if src[line_start..ws].contains("-> |") { "sub-expression:after-closure-call" } else { "sub-expression" };
                    out.push(json!({"e": "unused", "id": case["id"], "src": src, "edited": edited, "stmt": 0, "desc": desc,
                                    "fal": true, "has_st": false, "msg": w.message, "runs": runs}));
                }
                None => out.push(json!({"e": "unjudged", "id": case["id"], "src": src, "msg": w.message,
                                        "why": "warning does not cover a whole statement and the source without its span does not compile"})),
            }
            continue;
        };
        let i = path[0];
        let edited = remove_stmt(&stmts, &path);
        let mut ecase = case.clone();
        ecase["ast"] = J::Array(edited);
        let ec = match compile_case(&ecase) {
            Ok(ec) => ec,
            Err(ev) => {
                out.push(json!({"e": "unjudged", "id": case["id"], "src": src, "msg": w.message, "why": "edited program does not compile", "detail": ev["diags"]}));
                continue;
            }
        };
        let mut runs = vec![];
        for e in events {
            let a = run_once(&c.program, &e["ev"], &e["meta"], &[], FaultMode::None, tz, false);
            let b = run_once(&ec.program, &e["ev"], &e["meta"], &[], FaultMode::None, tz, false);
            runs.push(json!({"ev": e["ev"], "meta": e["meta"], "orig": a.end, "edit": b.end}));
        }
        let node = node_at(&annotated, &path);
        let fal = node["st"]["fal"].as_bool().unwrap_or(true);
        let mut hides = false;
        walk(node, &mut |n: &J| {
            let k = n["k"].as_str().unwrap_or("");
            if k == "asg" || k == "asg2" || (k == "call" && n["cls"] == "del") {
                hides = true;
            }
        });
        let base = match node["k"].as_str().unwrap_or("") {
            "op" => format!("op:{}", node["o"].as_str().unwrap_or("")),
            "call" => format!("call:{}", node["cls"].as_str().unwrap_or("")),
            k => k.to_owned(),
        };
        let desc = if hides { format!("{base}:hides-write") } else { base };
        let _ = i;
        out.push(json!({"e": "unused", "id": case["id"], "src": src, "edited": ec.prog_event["src"], "stmt": i, "desc": desc,
                        "fal": fal, "has_st": node.get("st").is_some(), "msg": w.message, "runs": runs}));
    }
    if nwarn == 0 {
        out.push(json!({"e": "nowarn", "id": case["id"], "src": src}));
    }
    out
}

/// The source without the bytes [ws, we) and one adjacent comma, compiled under the case's configuration.
fn textual_cut(case: &J, src: &str, ws: usize, we: usize) -> Option<(String, Program)> {
    if we > src.len() || ws > we || !src.is_char_boundary(ws) || !src.is_char_boundary(we) {
        return None;
    }
    let (before, after) = (&src[..ws], &src[we..]);
    let candidates = {
        let mut v = vec![];
        let at = after.trim_start();
        if let Some(rest) = at.strip_prefix(',') {
            v.push(format!("{before}{rest}"));
        }
        let bt = before.trim_end();
        if let Some(rest) = bt.strip_suffix(',') {
            v.push(format!("{rest}{after}"));
        }
        v.push(format!("{before}{after}"));
        v
    };
    let fns = vrl::stdlib::all();
    for edited in candidates {
        let external = external_env(case);
        let config = compile_config(case);
        if let Ok(Ok(c)) = catch_unwind(AssertUnwindSafe(|| compile_with_external(&edited, &fns, &external, config))) {
            return Some((edited, c.program));
        }
    }
    None
}

/// Find a statement (element of the root list or of a block's `s` list with more than one
/// element) whose span is exactly [ws, we); `path` = indices: root index, then for each nested
/// block the index inside the enclosing statement list (only blocks that are themselves
/// statements or reachable through `s` lists are searched).
fn find_stmt(list: &[J], ws: usize, we: usize, prefix: &mut Vec<usize>, found: &mut Option<Vec<usize>>) {
    for (i, n) in list.iter().enumerate() {
        if found.is_some() {
            return;
        }
        prefix.push(i);
        if n["sp"][0].as_u64() == Some(ws as u64) && n["sp"][1].as_u64() == Some(we as u64) && (prefix.len() == 1 || list.len() > 1) {
            *found = Some(prefix.clone());
        } else {
            // statement lists nested in this statement: blocks, if-branches, closure bodies,
            // and the same inside the right-hand side of an assignment
            for (slot, key) in STMT_LISTS.iter().enumerate() {
                if let Some(inner) = stmt_list(n, key) {
                    prefix.push(slot);
                    find_stmt(inner, ws, we, prefix, found);
                    prefix.pop();
                }
            }
        }
        prefix.pop();
    }
}

/// Where statement lists can hide inside a statement: (pointer into the node)
const STMT_LISTS: [&str; 6] = ["/s", "/t", "/e", "/cl/s", "/e/t", "/e/e"];

fn stmt_list<'a>(n: &'a J, key: &str) -> Option<&'a Vec<J>> {
    let k = n["k"].as_str().unwrap_or("");
    let ok = match key {
        "/s" => k == "block",
        "/t" => k == "if",
        "/e" => k == "if" && n["he"].as_bool().unwrap_or(false),
        "/cl/s" => k == "call" && n.get("cl").is_some(),
        "/e/t" => (k == "asg" || k == "asg2") && n["e"]["k"] == "if",
        "/e/e" => (k == "asg" || k == "asg2") && n["e"]["k"] == "if" && n["e"]["he"].as_bool().unwrap_or(false),
        _ => false,
    };
    if ok { n.pointer(key).and_then(|x| x.as_array()) } else { None }
}

/// path = [index in root list, (slot, index)*]
fn node_at<'a>(list: &'a [J], path: &[usize]) -> &'a J {
    let n = &list[path[0]];
    if path.len() == 1 {
        n
    } else {
        node_at(stmt_list(n, STMT_LISTS[path[1]]).expect("statement list"), &path[2..])
    }
}

fn remove_stmt(list: &[J], path: &[usize]) -> Vec<J> {
    let mut out: Vec<J> = list.to_vec();
    if path.len() == 1 {
        out.remove(path[0]);
    } else {
        let key = STMT_LISTS[path[1]];
        let inner = remove_stmt(stmt_list(&out[path[0]], key).expect("statement list"), &path[2..]);
        *out[path[0]].pointer_mut(key).expect("statement list") = J::Array(inner);
    }
    out
}

/// What the compiler reports for a source text, as comparable JSON (C14: compile determinism).
pub fn compile_report(src: &str, case: &J) -> (Option<Program>, J) {
    let fns = vrl::stdlib::all();
    let r = catch_unwind(AssertUnwindSafe(|| compile_with_external(src, &fns, &external_env(case), compile_config(case))));
    match r {
        Err(p) => (None, json!({"panic": panic_message(&p)})),
        Ok(Err(d)) => (None, json!({"rejected": diag_json(&d)})),
        Ok(Ok(c)) => {
            let info = c.program.info();
            let fin = c.program.final_type_info();
            let rep = json!({"warnings": diag_json(&c.warnings),
                "info": {"fallible": info.fallible, "abortable": info.abortable,
                         "queries": info.target_queries.iter().map(enc::tpath_to_json).collect::<Vec<_>>(),
                         "assignments": info.target_assignments.iter().map(enc::tpath_to_json).collect::<Vec<_>>()},
                "final": {"result": enc::kind_to_json(fin.result.kind()), "returns": enc::kind_to_json(fin.result.returns()),
                          "target": enc::kind_to_json(fin.state.external.target_kind()),
                          "metadata": enc::kind_to_json(fin.state.external.metadata_kind())}});
            (Some(c.program), rep)
        }
    }
}

fn distinct(v: Vec<J>) -> Vec<J> {
    let mut seen: Vec<String> = vec![];
    let mut out = vec![];
    for x in v {
        let s = x.to_string();
        if !seen.contains(&s) {
            seen.push(s);
            out.push(x);
        }
    }
    out
}

/// C14: compile twice; run sequentially on fresh runtimes, on one runtime cleared between
/// events (two orders), and from `threads` threads sharing the one `Program`.
pub fn threads_case(case: &J, events: &[J], tz: &TimeZone, threads: usize, reps: usize) -> Vec<J> {
    let mut out = vec![];
    let (src, is_ast) = match case.get("src") {
        Some(s) => (s.as_str().unwrap().to_owned(), false),
        None => (render::render_program(case["ast"].as_array().map(|v| v.as_slice()).unwrap_or(&[])).0, true),
    };
    let (p1, r1) = compile_report(&src, case);
    let (_p2, r2) = compile_report(&src, case);
    let compile_same = r1 == r2;
    let Some(program) = p1 else {
        out.push(json!({"e": "detcmp", "id": case["id"], "src": src, "compile_same": compile_same, "accepted": false,
                        "first": r1, "second": r2, "per_event": []}));
        return out;
    };
    // the traced, validated runs (sequential, fresh runtime): only for generated programs
    if is_ast {
        if let Ok(c) = compile_case(case) {
            out.push(c.prog_event);
            for e in events {
                out.extend(run_once(&c.program, &e["ev"], &e["meta"], &[], FaultMode::None, tz, false).events);
            }
        }
    }
    let base: Vec<J> = events.iter().map(|e| run_once(&program, &e["ev"], &e["meta"], &[], FaultMode::None, tz, false).end).collect();
    // histories on a cleared runtime
    let mut hist: Vec<Vec<J>> = events.iter().map(|_| vec![]).collect();
    for order in [false, true] {
        let mut rt = Runtime::default();
        let idx: Vec<usize> = if order { (0..events.len()).rev().collect() } else { (0..events.len()).collect() };
        for i in idx {
            hist[i].push(run_with(&mut rt, &program, &events[i]["ev"], &events[i]["meta"], &[], FaultMode::None, tz, false).end);
            rt.clear();
        }
    }
    // concurrent runs sharing the program
    let barrier = std::sync::Barrier::new(threads);
    let results: Vec<Vec<(usize, J)>> = std::thread::scope(|s| {
        let hs: Vec<_> = (0..threads)
            .map(|t| {
                let program = &program;
                let barrier = &barrier;
                s.spawn(move || {
                    let mut mine = vec![];
                    let mut rt = Runtime::default();
                    barrier.wait();
                    for r in 0..reps {
                        for k in 0..events.len() {
                            let i = (k + t + r) % events.len();
                            let end = run_with(&mut rt, program, &events[i]["ev"], &events[i]["meta"], &[], FaultMode::None, tz, false).end;
                            rt.clear();
                            mine.push((i, end));
                            if (k + t) % 3 == 0 {
                                std::thread::yield_now();
                            }
                        }
                    }
                    mine
                })
            })
            .collect();
        hs.into_iter().map(|h| h.join().unwrap_or_default()).collect()
    });
    let mut conc: Vec<Vec<J>> = events.iter().map(|_| vec![]).collect();
    let mut nconc = 0usize;
    for r in results {
        for (i, end) in r {
            conc[i].push(end);
            nconc += 1;
        }
    }
    let per_event: Vec<J> = (0..events.len())
        .map(|i| json!({"base": base[i], "hist": distinct(std::mem::take(&mut hist[i])), "conc": distinct(std::mem::take(&mut conc[i]))}))
        .collect();
    out.push(json!({"e": "detcmp", "id": case["id"], "src": src, "compile_same": compile_same, "accepted": true,
                    "first": if compile_same { json!("same") } else { r1 }, "second": if compile_same { json!("same") } else { r2 },
                    "per_event": per_event, "concurrent_runs": nconc, "threads": threads}));
    out
}

/// Sources of every stdlib example that does not call an explicitly nondeterministic function.
pub fn example_cases() -> Vec<J> {
    const EXEMPT: [&str; 14] = ["now(", "random_", "uuid_v4", "uuid_v7", "get_hostname", "get_env_var", "dns_lookup", "reverse_dns",
        "http_request", "get_timezone_name", "uuid_from_friendly_id", "get_secret", "set_secret", "remove_secret"];
    let mut out = vec![];
    let mut id = 1_000_000;
    for f in vrl::stdlib::all() {
        for ex in f.examples() {
            if EXEMPT.iter().any(|x| ex.source.contains(x)) {
                continue;
            }
            id += 1;
            out.push(json!({"id": id, "src": ex.source, "fn": f.identifier()}));
        }
    }
    out
}
