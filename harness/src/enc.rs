//! Transport encoding shared with the TLA+ specification (see spec/Values.tla, spec/Kinds.tla).
use std::collections::BTreeMap;

use bytes::Bytes;
use chrono::{DateTime, SecondsFormat, Utc};
use ordered_float::NotNan;
use serde_json::{Map, Value as J, json};
use vrl::path::{OwnedSegment, OwnedTargetPath, OwnedValuePath, PathPrefix};
use vrl::value::kind::Collection;
use vrl::value::{Kind, Value};

pub fn limbs_u64(x: u64) -> J {
    json!([
        (x >> 48) & 0xffff,
        (x >> 32) & 0xffff,
        (x >> 16) & 0xffff,
        x & 0xffff
    ])
}

pub fn limbs_to_u64(j: &J) -> u64 {
    let a = j.as_array().expect("limbs");
    let mut x: u64 = 0;
    for l in a {
        x = (x << 16) | (l.as_u64().expect("limb") & 0xffff);
    }
    x
}

pub fn val_to_json(v: &Value) -> J {
    match v {
        Value::Null => json!({"t": "null"}),
        Value::Boolean(b) => json!({"t": "bool", "v": b}),
        Value::Integer(i) => {
            if *i >= -(1 << 30) && *i <= (1 << 30) {
                json!({"t": "int", "n": i})
            } else {
                json!({"t": "int", "w": limbs_u64(*i as u64)})
            }
        }
        Value::Float(f) => json!({"t": "float", "b": limbs_u64(f.into_inner().to_bits())}),
        Value::Bytes(b) => match std::str::from_utf8(b) {
            Ok(s) => json!({"t": "bytes", "s": s}),
            Err(_) => json!({"t": "bytes", "c": b.iter().map(|x| *x as u64).collect::<Vec<_>>()}),
        },
        Value::Timestamp(ts) => {
            json!({"t": "ts", "s": ts.to_rfc3339_opts(SecondsFormat::Nanos, true)})
        }
        Value::Regex(r) => json!({"t": "regex", "s": r.as_str()}),
        Value::Array(a) => json!({"t": "arr", "e": a.iter().map(val_to_json).collect::<Vec<_>>()}),
        Value::Object(o) => {
            let mut m = Map::new();
            for (k, v) in o {
                m.insert(k.to_string(), val_to_json(v));
            }
            json!({"t": "obj", "m": J::Object(m)})
        }
    }
}

pub fn json_to_val(j: &J) -> Value {
    let t = j["t"].as_str().unwrap_or_else(|| panic!("value without tag: {j}"));
    match t {
        "null" => Value::Null,
        "bool" => Value::Boolean(j["v"].as_bool().expect("bool")),
        "int" => {
            if let Some(n) = j.get("n") {
                Value::Integer(n.as_i64().expect("int"))
            } else {
                Value::Integer(limbs_to_u64(&j["w"]) as i64)
            }
        }
        "float" => {
            let f = if let Some(b) = j.get("b") {
                f64::from_bits(limbs_to_u64(b))
            } else {
                j["f"].as_f64().expect("float")
            };
            Value::Float(NotNan::new(f).expect("NaN is not a VRL value"))
        }
        "bytes" => {
            if let Some(s) = j.get("s") {
                Value::Bytes(Bytes::from(s.as_str().expect("str").to_owned()))
            } else {
                let v: Vec<u8> = j["c"]
                    .as_array()
                    .expect("bytes")
                    .iter()
                    .map(|x| x.as_u64().expect("byte") as u8)
                    .collect();
                Value::Bytes(Bytes::from(v))
            }
        }
        "ts" => {
            let s = j["s"].as_str().expect("ts");
            Value::Timestamp(DateTime::parse_from_rfc3339(s).expect("rfc3339").with_timezone(&Utc))
        }
        "regex" => Value::Regex(regex::Regex::new(j["s"].as_str().expect("regex")).expect("regex").into()),
        "arr" => Value::Array(j["e"].as_array().map(|a| a.iter().map(json_to_val).collect()).unwrap_or_default()),
        "obj" => {
            let mut m = BTreeMap::new();
            if let Some(o) = j["m"].as_object() {
                for (k, v) in o {
                    m.insert(k.as_str().into(), json_to_val(v));
                }
            }
            Value::Object(m)
        }
        other => panic!("unknown value tag {other}"),
    }
}

pub fn seg_to_json(s: &OwnedSegment) -> J {
    match s {
        OwnedSegment::Field(f) => json!({"f": f.as_str()}),
        OwnedSegment::Index(i) => json!({"i": i}),
    }
}

pub fn path_to_json(p: &OwnedValuePath) -> J {
    J::Array(p.segments.iter().map(seg_to_json).collect())
}

pub fn json_to_path(j: &J) -> OwnedValuePath {
    let mut p = OwnedValuePath::root();
    if let Some(a) = j.as_array() {
        for s in a {
            if let Some(f) = s.get("f") {
                p.push_field(f.as_str().expect("field"));
            } else {
                p.push_index(s["i"].as_i64().expect("index") as isize);
            }
        }
    }
    p
}

pub fn prefix_str(p: PathPrefix) -> &'static str {
    match p {
        PathPrefix::Event => "event",
        PathPrefix::Metadata => "meta",
    }
}

pub fn str_prefix(s: &str) -> PathPrefix {
    match s {
        "event" => PathPrefix::Event,
        "meta" => PathPrefix::Metadata,
        other => panic!("unknown prefix {other}"),
    }
}

pub fn tpath_to_json(p: &OwnedTargetPath) -> J {
    json!({"pre": prefix_str(p.prefix), "p": path_to_json(&p.path)})
}

pub fn json_to_tpath(j: &J) -> OwnedTargetPath {
    OwnedTargetPath {
        prefix: str_prefix(j["pre"].as_str().expect("pre")),
        path: json_to_path(&j["p"]),
    }
}

fn prims(k: &Kind) -> Vec<&'static str> {
    let mut p = vec![];
    if k.is_never() {
        return p;
    }
    if k.contains_bytes() {
        p.push("bytes");
    }
    if k.contains_integer() {
        p.push("integer");
    }
    if k.contains_float() {
        p.push("float");
    }
    if k.contains_boolean() {
        p.push("boolean");
    }
    if k.contains_timestamp() {
        p.push("timestamp");
    }
    if k.contains_regex() {
        p.push("regex");
    }
    if k.contains_null() {
        p.push("null");
    }
    if k.contains_undefined() {
        p.push("undefined");
    }
    p
}

fn unknown_json<T: Ord + Clone>(c: &Collection<T>, depth: usize) -> J {
    let u = c.unknown_kind();
    if c.is_unknown_exact() && depth < 12 {
        json!({"x": kind_to_json_d(&u, depth + 1)})
    } else {
        // Unknown::Infinite: the same flags apply at every nesting level.
        json!({"inf": {"p": prims(&u), "arr": !u.is_never() && u.contains_array(), "obj": !u.is_never() && u.contains_object()}})
    }
}

fn kind_to_json_d(k: &Kind, depth: usize) -> J {
    let mut m = Map::new();
    m.insert("p".into(), json!(prims(k)));
    if !k.is_never() {
        if let Some(a) = k.as_array() {
            let kn: Vec<J> = a
                .known()
                .iter()
                .map(|(i, kk)| json!([i.to_usize(), kind_to_json_d(kk, depth + 1)]))
                .collect();
            m.insert("arr".into(), json!({"kn": kn, "un": unknown_json(a, depth)}));
        }
        if let Some(o) = k.as_object() {
            let mut kn = Map::new();
            for (f, kk) in o.known() {
                kn.insert(f.as_str().to_owned(), kind_to_json_d(kk, depth + 1));
            }
            m.insert("obj".into(), json!({"kn": J::Object(kn), "un": unknown_json(o, depth)}));
        }
    }
    J::Object(m)
}

/// Serialise a real `Kind` through its public accessors only.
pub fn kind_to_json(k: &Kind) -> J {
    kind_to_json_d(k, 0)
}

/// Build a real `Kind` from the transport encoding (public builders only).
pub fn json_to_kind(j: &J) -> Kind {
    let mut k = Kind::never();
    if let Some(p) = j["p"].as_array() {
        for x in p {
            match x.as_str().expect("prim") {
                "bytes" => k.add_bytes(),
                "integer" => k.add_integer(),
                "float" => k.add_float(),
                "boolean" => k.add_boolean(),
                "timestamp" => k.add_timestamp(),
                "regex" => k.add_regex(),
                "null" => k.add_null(),
                "undefined" => k.add_undefined(),
                other => panic!("unknown prim {other}"),
            };
        }
    }
    if let Some(a) = j.get("arr") {
        let mut known = BTreeMap::new();
        if let Some(kn) = a["kn"].as_array() {
            for pair in kn {
                let i = pair[0].as_u64().expect("index") as usize;
                known.insert(i.into(), json_to_kind(&pair[1]));
            }
        }
        let coll = Collection::from_parts(known, unknown_from_json(&a["un"]));
        k.add_array(coll);
    }
    if let Some(o) = j.get("obj") {
        let mut known = BTreeMap::new();
        if let Some(kn) = o["kn"].as_object() {
            for (f, kk) in kn {
                known.insert(f.as_str().into(), json_to_kind(kk));
            }
        }
        let coll = Collection::from_parts(known, unknown_from_json(&o["un"]));
        k.add_object(coll);
    }
    k
}

fn unknown_from_json(u: &J) -> Kind {
    if let Some(x) = u.get("x") {
        return json_to_kind(x);
    }
    let inf = &u["inf"];
    let ps: Vec<&str> = inf["p"].as_array().map(|a| a.iter().filter_map(|x| x.as_str()).collect()).unwrap_or_default();
    let arr = inf["arr"].as_bool().unwrap_or(false);
    let obj = inf["obj"].as_bool().unwrap_or(false);
    // The only infinite unknowns constructible through the public API are `any` and `json`.
    let all = ["bytes", "integer", "float", "boolean", "timestamp", "regex", "null"];
    if arr && obj && all.iter().all(|p| ps.contains(p)) {
        Kind::any()
    } else if arr && obj {
        Kind::json()
    } else {
        let mut k = Kind::never();
        for p in ps {
            match p {
                "bytes" => k.add_bytes(),
                "integer" => k.add_integer(),
                "float" => k.add_float(),
                "boolean" => k.add_boolean(),
                "timestamp" => k.add_timestamp(),
                "regex" => k.add_regex(),
                "null" => k.add_null(),
                _ => false,
            };
        }
        k
    }
}
