//! Verification harness for vrl: binds the TLA+ specification in /verif/spec to the real code.
mod algebra;
mod calls;
mod core;
mod enc;
mod render;
mod targets;

use std::collections::HashMap;
use std::fs::File;
use std::io::{BufRead, BufReader, BufWriter, Write};

use serde_json::Value as J;

pub struct Args {
    pub cmd: String,
    pub opts: HashMap<String, String>,
}

impl Args {
    pub fn get(&self, k: &str) -> Option<&str> {
        self.opts.get(k).map(String::as_str)
    }
    pub fn req(&self, k: &str) -> &str {
        self.get(k).unwrap_or_else(|| {
            eprintln!("missing --{k}");
            std::process::exit(2)
        })
    }
    pub fn num(&self, k: &str, d: usize) -> usize {
        self.get(k).map(|v| v.parse().expect("number")).unwrap_or(d)
    }
    pub fn flag(&self, k: &str) -> bool {
        self.opts.contains_key(k)
    }
}

fn parse_args() -> Args {
    let mut it = std::env::args().skip(1);
    let cmd = it.next().unwrap_or_else(|| "help".into());
    let mut opts = HashMap::new();
    let mut key: Option<String> = None;
    for a in it {
        if let Some(k) = a.strip_prefix("--") {
            if let Some(prev) = key.take() {
                opts.insert(prev, "true".into());
            }
            key = Some(k.to_owned());
        } else if let Some(k) = key.take() {
            opts.insert(k, a);
        }
    }
    if let Some(prev) = key.take() {
        opts.insert(prev, "true".into());
    }
    Args { cmd, opts }
}

pub fn read_ndjson(path: &str) -> Vec<J> {
    let f = File::open(path).unwrap_or_else(|e| {
        eprintln!("cannot open {path}: {e}");
        std::process::exit(2)
    });
    BufReader::new(f)
        .lines()
        .map_while(Result::ok)
        .filter(|l| !l.trim().is_empty())
        .map(|l| serde_json::from_str(&l).unwrap_or_else(|e| panic!("bad json line: {e}: {l}")))
        .collect()
}

/// Run `f(shard index, cases of that shard, writer)` on `shards` threads; shard i writes
/// `<out>.<i>.ndjson`.
pub fn sharded<F>(cases: Vec<J>, shards: usize, out: &str, f: F)
where
    F: Fn(usize, &[J], &mut dyn Write) + Sync,
{
    let mut parts: Vec<Vec<J>> = (0..shards).map(|_| vec![]).collect();
    for (i, c) in cases.into_iter().enumerate() {
        parts[i % shards].push(c);
    }
    std::thread::scope(|s| {
        for (i, part) in parts.iter().enumerate() {
            let f = &f;
            let path = format!("{out}.{i}.ndjson");
            s.spawn(move || {
                let mut w = BufWriter::new(File::create(&path).expect("create shard"));
                f(i, part, &mut w);
                w.flush().expect("flush");
            });
        }
    });
}

fn cmd_core(args: &Args) {
    let cases = read_ndjson(args.req("cases"));
    let events: Vec<J> = match args.get("events") {
        Some(p) => read_ndjson(p),
        None => core::default_events(),
    };
    let shards = args.num("shards", 1);
    let detail = args.flag("detail");
    // fault schedules (sets of target-operation ordinals), enumerated by TLC (C17)
    let schedules: Vec<Vec<usize>> = match args.get("faults") {
        Some(p) => read_ndjson(p)
            .iter()
            .map(|s| s.as_array().map(|a| a.iter().map(|x| x.as_u64().unwrap() as usize).collect()).unwrap_or_default())
            .collect(),
        None => vec![],
    };
    let tz = vrl::compiler::TimeZone::Named(chrono_tz::UTC);
    // silence the default panic message: panics are recorded as data
    std::panic::set_hook(Box::new(|_| {}));
    sharded(cases, shards, args.req("out"), |_, part, w| {
        for case in part {
            match core::compile_case(case) {
                Err(ev) => {
                    writeln!(w, "{ev}").unwrap();
                }
                Ok(c) => {
                    writeln!(w, "{}", c.prog_event).unwrap();
                    let evs: Vec<J> = match case.get("events") {
                        Some(J::Array(a)) => a.clone(),
                        _ => events.clone(),
                    };
                    for e in &evs {
                        let r = core::run_once(&c.program, &e["ev"], &e["meta"], &[], targets::FaultMode::None, &tz, detail);
                        for x in &r.events {
                            writeln!(w, "{x}").unwrap();
                        }
                        let nops = r.end["tops"].as_u64().unwrap_or(0) as usize;
                        for sched in &schedules {
                            if sched.is_empty() || sched.iter().any(|o| *o >= nops) {
                                continue;
                            }
                            let f = core::run_once(&c.program, &e["ev"], &e["meta"], sched, targets::FaultMode::Fault, &tz, detail);
                            let k = core::run_once(&c.program, &e["ev"], &e["meta"], sched, targets::FaultMode::Skip, &tz, detail);
                            // only the faulted run is validated event by event; the skip run is its reference
                            for x in &f.events {
                                writeln!(w, "{x}").unwrap();
                            }
                            writeln!(w, "{}", serde_json::json!({"e": "faultcmp", "sched": sched, "fault": f.end, "skip": k.end})).unwrap();
                        }
                    }
                }
            }
        }
    });
}

fn cmd_unused(args: &Args) {
    let cases = read_ndjson(args.req("cases"));
    let events: Vec<J> = match args.get("events") {
        Some(p) => read_ndjson(p),
        None => core::default_events(),
    };
    let tz = vrl::compiler::TimeZone::Named(chrono_tz::UTC);
    std::panic::set_hook(Box::new(|_| {}));
    sharded(cases, args.num("shards", 1), args.req("out"), |_, part, w| {
        for case in part {
            for ev in core::unused_case(case, &events, &tz) {
                writeln!(w, "{ev}").unwrap();
            }
        }
    });
}

fn cmd_threads(args: &Args) {
    let mut cases = match args.get("cases") {
        Some(p) => read_ndjson(p),
        None => vec![],
    };
    if args.flag("examples") {
        cases.extend(core::example_cases());
    }
    let events: Vec<J> = match args.get("events") {
        Some(p) => read_ndjson(p),
        None => core::default_events(),
    };
    let tz = vrl::compiler::TimeZone::Named(chrono_tz::UTC);
    let threads = args.num("threads", 8);
    let reps = args.num("reps", 3);
    std::panic::set_hook(Box::new(|_| {}));
    // programs are processed one after the other per shard; each uses `threads` threads itself
    sharded(cases, args.num("shards", 2), args.req("out"), |_, part, w| {
        for case in part {
            for ev in core::threads_case(case, &events, &tz, threads, reps) {
                writeln!(w, "{ev}").unwrap();
            }
        }
    });
}

/// Generic driver: one case per line in, one (or more) events per case out.
fn cmd_map(args: &Args, f: fn(&J) -> Vec<J>) {
    let cases = read_ndjson(args.req("cases"));
    std::panic::set_hook(Box::new(|_| {}));
    sharded(cases, args.num("shards", 1), args.req("out"), |_, part, w| {
        for case in part {
            for ev in f(case) {
                writeln!(w, "{ev}").unwrap();
            }
        }
    });
}

fn main() {
    let args = parse_args();
    match args.cmd.as_str() {
        "core" => cmd_core(&args),
        "unused" => cmd_unused(&args),
        "threads" => cmd_threads(&args),
        "values" => cmd_map(&args, |c| vec![algebra::value_case(c)]),
        "kinds" => cmd_map(&args, |c| vec![algebra::kind_case(c)]),
        "paths" => cmd_map(&args, |c| vec![algebra::path_case(c)]),
        "sigtable" => {
            std::fs::write(args.req("out"), calls::sigtable().to_string()).expect("write sigtable");
        }
        "callworker" => calls::worker(),
        "examples" => {
            let mut w = std::io::BufWriter::new(File::create(args.req("out")).expect("create"));
            for c in core::example_cases() {
                writeln!(w, "{c}").unwrap();
            }
        }
        "calls" => {
            let cases = read_ndjson(args.req("cases"));
            let deadline = std::time::Duration::from_millis(args.num("deadline-ms", 10000) as u64);
            let mem_kb = args.num("mem-kb", 6_000_000) as u64;
            sharded(cases, args.num("shards", 1), args.req("out"), |_, part, w| {
                calls::run_shard(part, w, deadline, mem_kb);
            });
        }
        "ops" => {
            let cases = read_ndjson(args.req("cases"));
            std::panic::set_hook(Box::new(|_| {}));
            sharded(cases, args.num("shards", 1), args.req("out"), |_, part, w| {
                let progs = algebra::OpPrograms::new();
                for case in part {
                    writeln!(w, "{}", progs.pair(case)).unwrap();
                }
            });
        }
        "nfn" => println!("{}", vrl::stdlib::all().len()),
        _ => {
            eprintln!("usage: vh <core|...> [--opt value]...");
            std::process::exit(2);
        }
    }
}
