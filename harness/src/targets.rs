//! Target implementations owned by the harness (the `Target` trait is public API):
//! a logging target, which can also inject faults (reject chosen operations) or silently
//! skip the same operations (the reference run for C17).
use std::cell::RefCell;

use serde_json::{Value as J, json};
use vrl::compiler::{SecretTarget, Target, TargetValue};
use vrl::path::OwnedTargetPath;
use vrl::value::{Secrets, Value};

use crate::enc;

#[derive(Clone, Copy, Debug, PartialEq, Eq)]
pub enum FaultMode {
    /// No faults.
    None,
    /// Operations whose ordinal is in the schedule return `Err`.
    Fault,
    /// Operations whose ordinal is in the schedule are silently not performed
    /// (a read finds nothing, a write/removal does nothing).
    Skip,
}

#[derive(Debug)]
pub struct LoggingTarget {
    pub inner: TargetValue,
    /// (mark = length of the expression log when the operation happened, event)
    pub log: RefCell<Vec<(usize, J)>>,
    pub ordinal: RefCell<usize>,
    pub schedule: Vec<usize>,
    pub mode: FaultMode,
}

impl LoggingTarget {
    pub fn new(value: Value, metadata: Value, schedule: Vec<usize>, mode: FaultMode) -> Self {
        Self {
            inner: TargetValue {
                value,
                metadata,
                secrets: Secrets::new(),
            },
            log: RefCell::new(vec![]),
            ordinal: RefCell::new(0),
            schedule,
            mode,
        }
    }

    fn next(&self) -> (usize, bool) {
        let mut o = self.ordinal.borrow_mut();
        let n = *o;
        *o += 1;
        (n, self.mode != FaultMode::None && self.schedule.contains(&n))
    }

    fn push(&self, ev: J) {
        let mark = vrl::compiler::verif::log_len();
        self.log.borrow_mut().push((mark, ev));
    }
}

fn none() -> J {
    json!({"t": "none"})
}

impl Target for LoggingTarget {
    fn target_insert(&mut self, path: &OwnedTargetPath, value: Value) -> Result<(), String> {
        let (n, hit) = self.next();
        let tp = enc::tpath_to_json(path);
        let vj = enc::val_to_json(&value);
        let res = if hit {
            if self.mode == FaultMode::Fault {
                Err("injected fault".to_owned())
            } else {
                Ok(())
            }
        } else {
            self.inner.target_insert(path, value)
        };
        self.push(json!({"e": "T", "op": "ins", "n": n, "pre": tp["pre"], "p": tp["p"], "v": vj,
                         "res": none(), "fault": hit, "ok": res.is_ok()}));
        res
    }

    fn target_get(&self, path: &OwnedTargetPath) -> Result<Option<&Value>, String> {
        let (n, hit) = self.next();
        let tp = enc::tpath_to_json(path);
        let res = if hit {
            if self.mode == FaultMode::Fault {
                Err("injected fault".to_owned())
            } else {
                Ok(None)
            }
        } else {
            self.inner.target_get(path)
        };
        let rj = match &res {
            Ok(Some(v)) => enc::val_to_json(v),
            _ => none(),
        };
        self.push(json!({"e": "T", "op": "get", "n": n, "pre": tp["pre"], "p": tp["p"],
                         "res": rj, "fault": hit, "ok": res.is_ok()}));
        res
    }

    fn target_get_mut(&mut self, path: &OwnedTargetPath) -> Result<Option<&mut Value>, String> {
        let (n, hit) = self.next();
        let tp = enc::tpath_to_json(path);
        self.push(json!({"e": "T", "op": "getmut", "n": n, "pre": tp["pre"], "p": tp["p"],
                         "res": none(), "fault": hit, "ok": !hit}));
        if hit {
            if self.mode == FaultMode::Fault {
                Err("injected fault".to_owned())
            } else {
                Ok(None)
            }
        } else {
            self.inner.target_get_mut(path)
        }
    }

    fn target_remove(&mut self, path: &OwnedTargetPath, compact: bool) -> Result<Option<Value>, String> {
        let (n, hit) = self.next();
        let tp = enc::tpath_to_json(path);
        let res = if hit {
            if self.mode == FaultMode::Fault {
                Err("injected fault".to_owned())
            } else {
                Ok(None)
            }
        } else {
            self.inner.target_remove(path, compact)
        };
        let rj = match &res {
            Ok(Some(v)) => enc::val_to_json(v),
            _ => none(),
        };
        self.push(json!({"e": "T", "op": "rem", "n": n, "pre": tp["pre"], "p": tp["p"], "compact": compact,
                         "res": rj, "fault": hit, "ok": res.is_ok()}));
        res
    }
}

impl SecretTarget for LoggingTarget {
    fn get_secret(&self, key: &str) -> Option<&str> {
        self.inner.get_secret(key)
    }

    fn insert_secret(&mut self, key: &str, value: &str) {
        self.inner.insert_secret(key, value);
    }

    fn remove_secret(&mut self, key: &str) {
        self.inner.remove_secret(key);
    }
}
